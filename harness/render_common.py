"""Shared by the rendering properties C13-C15: case strategy, fresh output
objects, layout/TikZ computation with the stub measurer."""
from __future__ import annotations

from hypothesis import strategies as st

from . import gen, pkg, stubs
from .plain import Instance

PARAM_FIELDS = (
    "species_branch_padding", "gene_branch_spacing", "trunk_overhead", "min_subtree_spacing", "level_spacing",
    "species_leaf_spacing", "species_label_spacing", "extant_gene_diameter", "loss_size", "speciation_size",
    "duplication_size", "transfer_size",
)
NAME_WITH_BACKSLASH = "abcdefghijklmnopqrstuvwxyzABCDEFGHIJKLMNOPQRSTUVWXYZ0123456789_\\"
FAMILY_ALPHABET = "abcdefghijklmnopqrstuvwxyzABCDEFGHIJKLMNOPQRSTUVWXYZ0123456789_"


@st.composite
def render_case(draw, max_obj=8, max_sp=6, max_fam=4, perturb_params=True, backslash_names=False, nested_colours=False,
                label_kinds=("none", "ordered", "unordered"), widths=False, min_sp=1, min_obj=1, concentrate=False, mapping_bias=None,
                sparse_sizes=False):
    alphabet = NAME_WITH_BACKSLASH if backslash_names else gen.NAME_ALPHABET
    case = draw(gen.drawn_reconciliation(max_obj=max_obj, max_sp=max_sp, max_fam=max_fam, costs="default",
                                         random_names=False, colour=False, min_sp=min_sp, min_obj=min_obj, concentrate=concentrate,
                                         mapping_bias=mapping_bias))
    inst = Instance(case)
    # a third of the cases are laid out after other work on the same objects (see compute): another valid mapping
    # of the same input drawn in the other orientation, then this output itself in the other orientation
    case["_history"] = gen.chance(draw, 1, 3)
    if case["_history"]:
        case["_mapping2"] = draw(gen.random_mapping(inst))
    # names: species arbitrary, object leaves <part>_<part> (the renderer splits leaf names at the last underscore)
    if backslash_names or draw(st.booleans()):
        snames = draw(gen.fresh_names(len(inst.snodes), alphabet))
        inner = draw(gen.fresh_names(len(inst.onodes), alphabet))
        parts = draw(gen.fresh_names(len(inst.oleaves), alphabet.replace("_", ""), max_size=5))
        omap = {}
        for i, n in enumerate(inst.onodes):
            omap[n] = inner[i]
        for i, l in enumerate(inst.oleaves):
            omap[l] = f"{inner[inst.onodes.index(l)]}_{parts[i]}"
        if len(set(omap.values())) != len(omap):
            omap = {n: n for n in inst.onodes}
        smap = dict(zip(inst.snodes, snames))
        fams = sorted({f for s in case["leaf_syntenies"].values() for f in s})
        fnames = draw(gen.fresh_names(len(fams), FAMILY_ALPHABET, max_size=6))
        fmap = dict(zip(fams, fnames))
    else:
        omap, smap, fmap = {}, {}, {}
    odds = (1, 2) if nested_colours else (1, 4)
    ocol = draw(gen.colours(len(inst.onodes), odds))
    case = gen.rename_case(case, omap, smap, fmap, ocol, None)
    case["_label_kind"] = draw(st.sampled_from(list(label_kinds)))
    if gen.chance(draw, 1, 6):
        # whole-number sizes handed over as Python ints (a measurer may return them; coordinates then stay integral)
        case["_sizes"] = [[draw(st.integers(1, 100)), draw(st.integers(1, 100))] for _ in range(24)]
    elif sparse_sizes:
        # most boxes minimal, a few large ones (what makes one trunk much wider than its neighbours)
        big = st.one_of(st.just(1.0), st.just(1.0), st.just(1.0), st.floats(1, 100, allow_nan=False, width=32))
        case["_sizes"] = [[draw(big), draw(big)] for _ in range(24)]
    else:
        case["_sizes"] = [[draw(st.floats(1, 100, allow_nan=False, width=32)), draw(st.floats(1, 100, allow_nan=False, width=32))] for _ in range(24)]
    params = {}
    if perturb_params:
        for f in PARAM_FIELDS:
            if gen.chance(draw, 1, 2):
                params[f] = draw(st.floats(0.015625, 50, allow_nan=False, width=32))
    if widths:
        params["event_label_width"] = draw(st.one_of(st.none(), st.integers(1, 30)))
        params["species_label_width"] = draw(st.one_of(st.none(), st.integers(1, 30)))
    case["_params"] = params
    case["_unnamed"] = gen.chance(draw, 1, 3)
    # unordered syntenies handed over as sets (as a caller building the output by hand may do)
    case["_syn_sets"] = draw(st.booleans())
    if case["_label_kind"] != "none" and gen.chance(draw, 1, 3):
        # leaves labelled by their synteny do not show their name: it needs no underscore then
        inst2 = Instance({k: v for k, v in case.items() if not k.startswith("_")}, label=False)
        plain = {l: l.replace("_", "") + "x" for l in inst2.oleaves}
        if len(set(plain.values())) == len(plain) and not set(plain.values()) & set(inst2.onodes):
            keep = {k: v for k, v in case.items() if k.startswith("_") and k not in ("_mapping", "_mapping2", "_lab_o", "_lab_u")}
            case = gen.rename_case(case, plain, {})
            case.update(keep)
            case["_plain_leaf_names"] = True
    return case


def fresh_output(case, label_kind=None, names=None, shared=None):
    """A new package output object for the case (fresh trees every time:
    layout.compute adds colour features to the object tree).  If the case
    asks for it (`_unnamed`), the names of all ancestral nodes of both trees
    are blanked after construction (ancestors need no names in the Python
    API); `names` receives {node object: original name}."""
    from superrec2.model.reconciliation import (
        ReconciliationInput, ReconciliationOutput, SuperReconciliationInput, SuperReconciliationOutput,
    )

    base = {k: v for k, v in case.items() if not k.startswith("_")}
    kind = label_kind or case.get("_label_kind", "none")
    if shared is not None and "inp" in shared:
        # the same input object (same tree objects) as an earlier output of this walk
        inp, onode, snode = shared["inp"], shared["onode"], shared["snode"]
    else:
        if kind == "none":
            inp = pkg.guarded(ReconciliationInput.from_dict, {k: v for k, v in base.items() if k != "leaf_syntenies"})
        else:
            inp = pkg.guarded(SuperReconciliationInput.from_dict, base)
        onode = {n.name: n for n in inp.object_tree.traverse()}
        snode = {n.name: n for n in inp.species_lca.tree.traverse()}
        if shared is not None:
            shared.update(inp=inp, onode=onode, snode=snode)
    mo = {onode[k]: snode[v] for k, v in case["_mapping"].items()}
    if names is not None:
        names.update({n: k for k, n in onode.items()})
        names.update({n: k for k, n in snode.items()})
    if kind == "none":
        out = ReconciliationOutput(inp, mo)
    else:
        lab = case["_lab_o"] if kind == "ordered" else case["_lab_u"]
        conv = set if (kind == "unordered" and case.get("_syn_sets")) else list
        syn = {onode[k]: conv(v) for k, v in lab.items()}
        out = SuperReconciliationOutput(input=inp, object_species=mo, syntenies=syn, ordered=(kind == "ordered"))
    if case.get("_unnamed"):
        for node in list(onode.values()) + list(snode.values()):
            if not node.is_leaf():
                node.name = ""
    return out


def draw_params(case, orientation):
    from superrec2.render.model import DrawParams, Orientation

    return DrawParams(orientation=Orientation[orientation], **case.get("_params", {}))


def compute(case, orientation, swap=False, label_kind=None, render=True, history=True, shared=None):
    """(output, layout, tikz code or None, params, stub)"""
    from superrec2.render import layout as layout_mod
    from superrec2.render import tikz

    names = {}
    out = fresh_output(case, label_kind, names, shared)
    params = draw_params(case, orientation)
    sizes = [tuple(s) for s in case["_sizes"]]
    if case.get("_history") and history:
        # history: a drawing may not depend on what was drawn before from the same objects
        other = draw_params(case, "HORIZONTAL" if orientation == "VERTICAL" else "VERTICAL")
        with stubs.stub_tex(sizes, swap=not swap, min_leaf=other.extant_gene_diameter):
            if case.get("_mapping2"):
                snode = {names[n]: n for n in out.input.species_lca.tree.traverse()}
                onode = {names[n]: n for n in out.input.object_tree.traverse()}
                mo2 = {onode[k]: snode[v] for k, v in case["_mapping2"].items()}
                twin = type(out)(**{**{f: getattr(out, f) for f in out.__dataclass_fields__ if not f.startswith("_")}, "object_species": mo2})
                pkg.guarded(tikz.render, twin, pkg.guarded(layout_mod.compute, twin, other), other)
            pkg.guarded(tikz.render, out, pkg.guarded(layout_mod.compute, out, other), other)
    with stubs.stub_tex(sizes, swap=swap, min_leaf=params.extant_gene_diameter) as stub:
        lay = pkg.guarded(layout_mod.compute, out, params)
        code = pkg.guarded(tikz.render, out, lay, params) if render else None
    stub.names = names
    return out, lay, code, params, stub


def is_pseudo(gene):
    return type(gene).__name__ == "PseudoGene"


KIND_NAME = {"LEAF": "LEAF", "SPECIATION": "S", "DUPLICATION": "D", "HORIZONTAL_TRANSFER": "T", "FULL_LOSS": "LOSS"}


def branch_kind(branch):
    return KIND_NAME[branch.kind.name]
