#!/bin/bash
# tools/mutant.sh <patch.diff> <ID> [<ID>...]   (env: TIER=quick|thorough, BASELINE=1 to also run the repo tests)
# Applies a patch to a scratch worktree of /repo HEAD (outside /repo and /verif), runs the given checks
# against it (VERIF_REPO_SRC) with evidence redirected to a scratch directory, then removes the worktree.
# Prints one line per check: <patch> <ID> exit=<code> first-violation-clause
set -u
PATCH=$(readlink -f "$1"); shift
V=$(cd "$(dirname "$0")/.." && pwd)
W=$(mktemp -d /tmp/mutant.XXXXXX)
git -C /repo worktree add -q --detach "$W/repo" HEAD || exit 2
trap 'git -C /repo worktree remove --force "$W/repo" >/dev/null 2>&1; rm -rf "$W"' EXIT
git -C "$W/repo" apply "$PATCH" || { echo "$PATCH: does not apply"; exit 2; }
if [ "${BASELINE:-0}" = 1 ]; then
  (cd "$W/repo" && PYTHONPATH="$W/repo/src" /venv/bin/python -m pytest -q -p no:cacheprovider --timeout=900 2>&1 | tail -1)
fi
for id in "$@"; do
  out=$(VERIF_NO_SHRINK="${KEEP:+}${KEEP:-1}" VERIF_REPO_SRC="$W/repo/src" VERIF_EVIDENCE_DIR="$W/evidence" VERIF_RUN_DIR="$W/run" "$V/vcheck" "$id" --tier "${TIER:-quick}" 2>&1)
  code=$?
  clause=$(echo "$out" | grep -m1 -o 'clause=[^ ]*')
  echo "$(basename "$PATCH") $id exit=$code $clause $(echo "$out" | grep -c '^VIOLATION') violation line(s); $(echo "$out" | tail -1)"
  if [ "${VERBOSE:-0}" = 1 ]; then echo "$out"; fi
  # KEEP=<dir>: keep the replay files written for the mutated tree (used to harvest regression witnesses)
  if [ -n "${KEEP:-}" ] && [ -d "$W/run" ]; then mkdir -p "$KEEP"; cp "$W"/run/*.json "$KEEP"/ 2>/dev/null; fi
done
