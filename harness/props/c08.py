"""C08 - polytomies are resolved by exploring every binary refinement exactly once."""
from collections import Counter

from hypothesis import strategies as st

from .. import gen, pkg
from ..oracles import all_binary_on, all_leaf_labelled_trees, double_factorial_odd, refinements
from ..plain import Instance, PTree, from_ete, label_internal, parse_newick
from ..runner import Result, Skip, Violation
from ..solver_common import MODE, case_of_output, check_refinement, prescribed_root_of, reference, validate_output

ID = "C08"
LEVEL = "exploration"
LEVEL_TEXT = (
    "Enumerator: bounded-exhaustive over ALL rooted leaf-labelled trees with arbitrary arities up to 5 leaves (quick) / 6 leaves (thorough) with "
    "names and colours on internal nodes: the package's refinements must be exactly the binary trees containing every original clade (independent "
    "generator), each once, count = product of (2k-3)!!, names/colours kept. End-to-end: random polytomous inputs (<=4+4 leaves, <=2 polytomies) "
    "whose optimum and complete optimal set are recomputed as the union over all refinement pairs by the independent oracle."
)
LEVEL_NOTE = (
    "Trusted: the independent refinement generator (all rooted binary trees on k items by recursive bipartition) and oracles of harness/oracles.py; "
    "solutions are compared by clades because names of added nodes are not specified. Base solvers are not run on non-binary inputs."
)
TECHNIQUE = "bounded-exhaustive tree enumeration + Hypothesis random polytomous inputs vs independent refinement generator and per-refinement oracle"
DESIGN_REF = "DESIGN.md section 5 (C08)"
RULE = (
    "Layer A (exhaustive): every rooted leaf-labelled tree with 2..5 (quick) or 2..6 (thorough) leaves and all internal arities >= 2; internal "
    "nodes named, every second one coloured.  utils.trees.binarize: number of results == prod (2k-3)!!, clade sets pairwise distinct and == the "
    "independent refinement set, each result binary with original names/colours on the node of the same clade.  ReconciliationInput.binarize: "
    "product of both trees' refinements, leaf data unchanged.  Layer B (random): inputs with <=4 object and <=4 species leaves, <=2 polytomies, "
    "<=3 families, coherent costs, solver ext_spfs or superdtl: cost == min over all refinement pairs of the oracle optimum; canonical(ALL) keyed "
    "by (object clades, species clades, mapping by clade, labelling by clade) has no repeats and == union of the optimal sets of the optimal "
    "refinement pairs; V-TREES on every returned solution.  Non-trivial: some node has >=3 children; distinct by SHA-1 of the case."
    '  Also (layer A): the enumerated trees are named/coloured in four patterns (coloured unnamed nodes included) and a twin with the same shape and names but other colours is resolved right after; (layer B): colours on arbitrary nodes, some ancestor names removed, prescribed root orders for ext_spfs (possibly naming an extra family), a fifth of the cases on the region boundary with free losses; the single solution of policy ANY must be optimal over all refinements and a member of the ALL set.'
)
ASSUMPTIONS = ["coherent costs in layer B", "solutions compared by clades", "unordered solvers compared with the canonical-labelling set when it attains the all-labellings optimum"]
BUDGET = {"quick": {"random": 600}, "thorough": {"random": 6000}}
EXHAUSTIVE_RULE = {"quick": "all rooted leaf-labelled trees with 2..5 leaves", "thorough": "all rooted leaf-labelled trees with 2..6 leaves"}


# --- layer A ---------------------------------------------------------------
def _nested_newick(t, counter, variant=0, shift=0):
    """newick with internal nodes named/coloured by pattern: variant 0 all named, colours on even nodes; 1 names on odd
    nodes only (so coloured nodes are unnamed); 2 no names, colours on every third node; 3 all named, no colour.
    `shift` changes the colour values only (same shape, same names)."""
    if isinstance(t, str):
        return t
    idx = counter[0]
    counter[0] += 1
    inner = ",".join(_nested_newick(c, counter, variant, shift) for c in t)
    coloured = {0: idx % 2 == 0, 1: idx % 2 == 0, 2: idx % 3 == 0, 3: False}[variant]
    named = {0: True, 1: idx % 2 == 1, 2: False, 3: True}[variant]
    col = f"[&&NHX:color={'%06x' % (0x111111 * ((idx + shift) % 9 + 1))}]" if coloured else ""
    return f"({inner}){f'I{idx}' if named else ''}{col}"


def exhaustive(tier):
    top = 5 if tier == "quick" else 6
    return [(top, i, 16) for i in range(16)]


def run_job(job):
    top, idx, mod = job
    k = 0
    for n in range(2, top + 1):
        for t in all_leaf_labelled_trees(list("abcdef"[:n])):
            k += 1
            if k % mod == idx:
                # a second tree with the same shape and names but other colours is resolved right after the first one
                yield {"_kind": "enum", "tree": _nested_newick(t, [0], k % 4) + ";", "tree_recoloured": _nested_newick(t, [0], k % 4, 4) + ";"}


def _clades_of_refinements(orig: PTree):
    leaves = [orig.name[l] for l in orig.leaves()]
    need = orig.clades()
    out = set()

    def clades(t):
        if isinstance(t, str):
            return frozenset([t]), {frozenset([t])}
        a, ca = clades(t[0])
        b, cb = clades(t[1])
        return a | b, ca | cb | {a | b}

    for t in all_binary_on(leaves):
        _, cs = clades(t)
        if need <= cs:
            out.add(frozenset(cs))
    return out


def check_enum(case):
    from ete3 import Tree
    from superrec2.utils.trees import binarize

    orig = parse_newick(case["tree"])
    tree = Tree(case["tree"], format=1)
    results = pkg.guarded(binarize, tree)
    if case.get("tree_recoloured") and case["tree_recoloured"] != case["tree"]:
        # history: the same shape and names with other colours, resolved in the same process, keeps its own colours
        orig2 = parse_newick(case["tree_recoloured"])
        for r in pkg.guarded(binarize, Tree(case["tree_recoloured"], format=1)):
            check_refinement(orig2, _keep_unnamed(from_ete(r)), "binarize.recoloured-twin")
        # and the first tree resolved once more still gives its own colours
        for r in pkg.guarded(binarize, tree):
            check_refinement(orig, _keep_unnamed(from_ete(r)), "binarize.again-after-twin")
    expected_count = 1
    for n in orig.nodes():
        k = len(orig.children[n])
        if k >= 2:
            expected_count *= double_factorial_odd(k)
    if len(results) != expected_count:
        raise Violation("binarize.count", observed=len(results), expected=expected_count)
    seen = Counter()
    for r in results:
        # each refinement is a tree of its own: every node is the parent of its children, no node is shared with another
        for node in r.traverse():
            for child in node.children:
                if child.up is not node:
                    raise Violation("binarize.parent-link-broken", observed=f"child {child.name!r} of {node.name!r}", expected="child.up is its parent")
        pt = from_ete(r)
        check_refinement(orig, _keep_unnamed(pt), "binarize")
        seen[pt.clades()] += 1
    ids = Counter(id(node) for r in results for node in r.traverse())
    if any(v > 1 for v in ids.values()):
        raise Violation("binarize.node-shared-between-refinements", observed=sum(1 for v in ids.values() if v > 1), expected=0)
    if any(v > 1 for v in seen.values()):
        raise Violation("binarize.duplicate", observed=max(seen.values()), expected=1)
    exp = _clades_of_refinements(orig)
    if set(seen) != exp:
        raise Violation("binarize.set", observed=len(seen), expected=len(exp))
    # input-level product
    case_in = {
        "object_tree": case["tree"],
        "species_tree": "(SA,(SB,SC,SD)P1[&&NHX:color=00ff00])P0;" if len(orig.leaves()) <= 4 else "(SA,SB)P0;",
        "leaf_object_species": {orig.name[l]: "SA" for l in orig.leaves()},
        "leaf_syntenies": {orig.name[l]: ["g0", "g1"] for l in orig.leaves()},
        "costs": {"SPECIATION": 0, "DUPLICATION": 2, "HORIZONTAL_TRANSFER": 3, "FULL_LOSS": 1, "SEGMENTAL_LOSS": 1},
    }
    inp = pkg.make_input(case_in, labelled=True, label=False)
    outs = pkg.guarded(lambda: list(inp.binarize()))
    sp = parse_newick(case_in["species_tree"])
    n_sp = len(_clades_of_refinements(sp))
    if orig.is_binary() and sp.is_binary():
        if len(outs) != 1 or outs[0] is not inp:
            raise Violation("input.binarize.binary-not-unchanged", observed=len(outs), expected="the input itself")
    else:
        pairs = Counter()
        for b in outs:
            ot, stt = from_ete(b.object_tree), from_ete(b.species_lca.tree)
            check_refinement(orig, _keep_unnamed(ot), "input.binarize.object")
            check_refinement(sp, _keep_unnamed(stt), "input.binarize.species")
            pairs[(ot.clades(), stt.clades())] += 1
            if {k.name: v.name for k, v in b.leaf_object_species.items()} != case_in["leaf_object_species"]:
                raise Violation("input.binarize.leaf-species-changed", observed="changed", expected="unchanged")
            if {k.name: list(v) for k, v in b.leaf_syntenies.items()} != case_in["leaf_syntenies"]:
                raise Violation("input.binarize.leaf-syntenies-changed", observed="changed", expected="unchanged")
            if {k.name: v for k, v in b.costs.items()} != {k.name: v for k, v in inp.costs.items()}:
                raise Violation("input.binarize.costs-changed", observed="changed", expected="unchanged")
        if len(outs) != expected_count * n_sp or any(v > 1 for v in pairs.values()) or len(pairs) != expected_count * n_sp:
            raise Violation("input.binarize.product", observed=(len(outs), len(pairs)), expected=expected_count * n_sp)
    poly = any(len(orig.children[n]) >= 3 for n in orig.nodes())
    return Result(poly, [f"leaves={len(orig.leaves())}", "polytomy" if poly else "binary"], evals=1 + len(results))


def _keep_unnamed(pt: PTree) -> PTree:
    """check_refinement wants unique non-empty names; refinements coming straight from the
    enumerator have unnamed added nodes, so name them here (naming is not under test)."""
    label_internal(pt, "_N")
    return pt


# --- layer B ---------------------------------------------------------------
@st.composite
def _case(draw):
    algo = draw(st.sampled_from(["ext_spfs", "superdtl"]))
    op, sp = draw(st.sampled_from([(1, 0), (0, 1), (1, 1), (2, 0)]))
    case = draw(gen.rec_case(max_obj=4, max_sp=4, min_obj=3, min_sp=1, costs="coherent", labelled=True, max_fam=3,
                             obj_poly=op, sp_poly=sp, allow_inconsistent=(algo == "ext_spfs"), prescribed_root=(algo == "ext_spfs"), prescribed_odds=(1, 2)))
    if gen.chance(draw, 1, 5):
        # on the boundary of the region with free losses (spe == dup, floss == sloss == 0): every refinement ties in
        # the tables, decoded solutions differ
        d = draw(st.integers(0, 2))
        case["costs"] = {"SPECIATION": d, "DUPLICATION": d, "HORIZONTAL_TRANSFER": draw(gen.HGT), "FULL_LOSS": 0, "SEGMENTAL_LOSS": 0}
    case["_algo"] = algo
    case["_kind"] = "solve"
    # colours on arbitrary nodes and blanked ancestor names (by pre-order position), applied by _decorate
    case["_ocol"] = draw(gen.colours(7, odds=(1, 4)))
    case["_scol"] = draw(gen.colours(7, odds=(1, 4)))
    case["_blank"] = draw(st.lists(st.booleans(), min_size=14, max_size=14)) if gen.chance(draw, 1, 2) else []
    return case


def _decorate(case):
    """the case with its drawn colours set and the drawn ancestor names removed (an ancestor named in
    leaf_syntenies - the prescribed root - keeps its name)."""
    base = {k: v for k, v in case.items() if not k.startswith("_")}
    blank = list(case.get("_blank") or [])
    pos = 0
    for key, cols in (("object_tree", case.get("_ocol")), ("species_tree", case.get("_scol"))):
        t = parse_newick(base[key])
        for n in t.nodes():
            if cols and n < len(cols) and cols[n] is not None:
                t.features[n]["color"] = cols[n]
            if not t.is_leaf(n):
                if pos < len(blank) and blank[pos] and t.name[n] not in base.get("leaf_syntenies", {}):
                    t.name[n] = ""
                pos += 1
        base[key] = t.to_newick()
    return base


def strategy(tier):
    return _case()


def _clade_key(inst, ot, stt, sol, ordered):
    ms, ls = sol
    oid, sid = ot.by_name(), stt.by_name()
    mapping = frozenset((ot.clade(oid[k]), stt.clade(sid[v])) for k, v in ms)
    lab = frozenset((ot.clade(oid[k]), tuple(v) if ordered else frozenset(v)) for k, v in ls)
    return (ot.clades(), stt.clades(), mapping, lab)


def check_solve(case):
    algo = case["_algo"]
    mode = MODE[algo][0]
    ordered = mode == "ordered"
    base = _decorate(case)
    orig_o, orig_s = parse_newick(base["object_tree"]), parse_newick(base["species_tree"])
    poly = not (orig_o.is_binary() and orig_s.is_binary())
    best = None
    union = set()
    n_pairs = 0
    for ro in refinements(orig_o):
        for rs in refinements(orig_s):
            n_pairs += 1
            sub = dict(base, object_tree=ro.to_newick(with_features=False), species_tree=rs.to_newick(with_features=False))
            inst = Instance(sub)
            canonical = not ordered
            opt, sols = reference(inst, mode, canonical=canonical)
            if canonical:
                opt_all, _ = reference(inst, mode, canonical=False, want_set=False)
                if opt_all != opt:
                    raise Skip("canonical_optimum!=all_labellings_optimum (C03)")
            if opt is None:
                continue
            if sols is None:
                raise Skip("oracle_set_too_large")
            keys = {_clade_key(inst, inst.O, inst.S, s, ordered) for s in sols}
            if best is None or opt < best:
                best, union = opt, set(keys)
            elif opt == best:
                union |= keys
    inp = pkg.make_input(base, labelled=True, label=False)
    outs = pkg.run_algo(algo, inp, "ALL")
    if best is None:
        if outs:
            raise Violation(f"{algo}.nonempty-without-solution", observed=len(outs), expected=0)
        return Result(False, [f"algo={algo}", "no_solution"], evals=n_pairs)
    if not outs:
        raise Violation(f"{algo}.empty", observed=0, expected=f"cost {best}")
    got = Counter()
    for out in outs:
        ocase, ot, stt = case_of_output(out, base["costs"])
        check_refinement(orig_o, ot, f"{algo}.object")
        check_refinement(orig_s, stt, f"{algo}.species")
        inst = Instance(ocase)
        _m, _lab, tot = validate_output(inst, out, algo, "ALL", prescribed_root_of(inst) if ordered else None)
        if tot != best:
            raise Violation(f"{algo}.cost!=min-over-refinements", observed=tot, expected=best)
        sol = pkg.canon_output(out, labelled=True, ordered=ordered)
        got[_clade_key(inst, ot, stt, sol, ordered)] += 1
    if any(v > 1 for v in got.values()):
        raise Violation(f"{algo}.ALL.duplicate-across-refinements", observed=max(got.values()), expected=1)
    if set(got) != union:
        raise Violation(f"{algo}.ALL!=union-of-refinement-optima", observed=len(got), expected=len(union),
                        extra={"missing": len(union - set(got)), "extra": len(set(got) - union)})
    any_out = pkg.run_algo(algo, inp, "ANY")
    if len(any_out) != 1:
        raise Violation(f"{algo}.ANY.count", observed=len(any_out), expected=1)
    # the single solution of policy ANY is one of the optimal ones over all refinements
    ocase, ot, stt = case_of_output(any_out[0], base["costs"])
    check_refinement(orig_o, ot, f"{algo}.ANY.object")
    check_refinement(orig_s, stt, f"{algo}.ANY.species")
    ainst = Instance(ocase)
    _m, _lab, tot = validate_output(ainst, any_out[0], algo, "ANY", prescribed_root_of(ainst) if ordered else None)
    if tot != best:
        raise Violation(f"{algo}.ANY.cost!=min-over-refinements", observed=tot, expected=best)
    if _clade_key(ainst, ot, stt, pkg.canon_output(any_out[0], labelled=True, ordered=ordered), ordered) not in union:
        raise Violation(f"{algo}.ANY.not-in-union-of-refinement-optima", observed="other solution", expected="member of the ALL set")
    labels = [f"algo={algo}", f"pairs={'1' if n_pairs == 1 else '2-9' if n_pairs < 10 else '10+'}", "polytomy" if poly else "binary"]
    for t in (orig_o, orig_s):
        if any(t.features[n].get("color") is not None and t.name[n] == "" for n in t.nodes()):
            labels.append("unnamed_coloured_node")
            break
    if any(t.features[n].get("color") is not None for t in (orig_o, orig_s) for n in t.nodes()):
        labels.append("coloured")
    return Result(poly, labels, evals=n_pairs)


def check(case):
    if case["_kind"] == "enum":
        return check_enum(case)
    return check_solve(case)
