"""C04 - every returned solution is a valid, complete (super-)reconciliation."""
from hypothesis import strategies as st

from .. import gen, pkg
from ..plain import Instance, parse_newick
from ..runner import Result, Violation, case_hash
from ..solver_common import (
    MODE, case_of_output, check_refinement, common_labels, prescribed_root_of, validate_output,
)

ID = "C04"
LEVEL = "exploration"
LEVEL_TEXT = (
    "Random search with validity predicates only (no optimum needed), so sizes go to 10 object leaves / 8 species / 5 families, "
    "free cost vectors (no region restriction, sloss=0 weighted), all seven algorithms, both policies, and multifurcating inputs for "
    "the extended solvers: every returned solution must map every node, keep leaves, contain only valid events, have finite cost and a "
    "valid ordered/unordered labelling on trees that are binary refinements of the input."
)
LEVEL_NOTE = (
    "Trusted: validity predicates and evaluator of harness/plain.py, the harness's reading of package objects by attribute access, Hypothesis. "
    "Base solvers and lca/thl/exh are given binary inputs only (their documented domain)."
)
TECHNIQUE = "property-based testing: Hypothesis random inputs (incl. polytomies, free costs) vs structural validity predicates"
DESIGN_REF = "DESIGN.md section 5 (C04), 4.5"
RULE = (
    "Hypothesis cases: group plain (lca, thl <=10 object/8 species leaves; exh <=6), ordered (base_spfs, ext_spfs <=8/6 leaves, <=4 families, "
    "consistent or inconsistent orders, optional prescribed root), unordered (base_uspfs, superdtl <=10/8, <=5 families), polytomous "
    "(ext_spfs, superdtl only; <=6/5 leaves, <=2 polytomies, one of arity <=4 in the object tree, the others of arity 3); free costs in {0..3}, hgt possibly infinite; policy ALL is run up to 6 object / 6 species leaves, ANY at every size.  Every solution of "
    "every applicable algorithm under ALL and ANY is checked with V-MAP, V-ORD/V-UNO, finite recounted cost == package cost, V-TREES.  "
    "Non-trivial: >=1 solution returned that contains a non-speciation event on an object tree of >=3 leaves; distinct by SHA-1 of the case."
    '  Also: a quarter of the labelled cases have unnamed ancestors (solutions validated on the trees they refer to); leaf syntenies are handed over as list, tuple, str or set; a quarter of the cases are deep chains (caterpillars of 5..8 leaves, unordered solvers); polytomous ordered inputs may prescribe a root order (which may name a family no leaf carries); for a quarter of the polytomous cases the lines written by `reconcile --solutions all` are parsed back and validated; ALL is skipped (ANY only) above 4 leaves when both loss costs are zero.'
)
ASSUMPTIONS = [
    "non-empty leaf syntenies without repeated families; no prescribed root for unordered solvers",
    "base_* and plain algorithms only on binary inputs",
]
BUDGET = {"quick": {"random": 3000}, "thorough": {"random": 80000}}
# quick tier: at most this many solutions of one (algorithm, policy) run are validated, chosen
# deterministically (sorted by canonical form, evenly spaced); thorough validates all of them
CAP = {"quick": 150, "thorough": 10**9}
_tier = {"name": "quick"}

GROUPS = {
    "plain": ("lca", "thl", "exh"),
    "ordered": ("base_spfs", "ext_spfs"),
    "unordered": ("base_uspfs", "superdtl"),
    "poly_ordered": ("ext_spfs",),
    "poly_unordered": ("superdtl",),
}


@st.composite
def _case(draw):
    group = draw(st.sampled_from(list(GROUPS) + ["chain", "chain"]))
    if group == "chain":
        # deep chains (caterpillars of 6..8 leaves over <=3 species, independent leaf contents): the unordered solvers'
        # inheritance through several consecutive ancestors; validity predicates only, so cheap
        case = draw(gen.deep_chain_case(min_obj=5, max_obj=8, max_sp=3, max_fam=5, costs="free"))
        group = "unordered"
        case["_chain"] = True
    elif group == "plain":
        case = draw(gen.rec_case(max_obj=10, max_sp=8, costs="free", labelled=False, misleading=True))
    elif group == "ordered":
        case = draw(gen.rec_case(max_obj=8, max_sp=6, costs="free", labelled=True, max_fam=4, prescribed_root=True, misleading=True))
    elif group == "unordered":
        case = draw(gen.rec_case(max_obj=10, max_sp=8, costs="free", labelled=True, max_fam=5, allow_inconsistent=False, misleading=True))
    else:
        op, sp = draw(st.sampled_from([(1, 0), (0, 1), (2, 0), (1, 1)]))
        case = draw(gen.rec_case(max_obj=6, max_sp=5, min_obj=3, min_sp=1, costs="free", labelled=True, max_fam=3,
                                 prescribed_root=(group == "poly_ordered"), prescribed_odds=(1, 2), obj_poly=op, sp_poly=sp,
                                 allow_inconsistent=(group == "poly_ordered"), misleading=True))
    if gen.chance(draw, 1, 4) and "leaf_syntenies" in case:
        case["costs"] = dict(case["costs"], SEGMENTAL_LOSS=0)
    case["_group"] = group
    # the type the leaf syntenies are handed over in: the package accepts any sequence of family names (lists through
    # JSON, tuples, and - for one-letter families, as in its own tests - plain strings), sets for the unordered solvers
    case["_syn_type"] = draw(st.sampled_from(["list", "list", "tuple", "str", "set"]))
    # ancestors of both trees without names, handed to the labelled solvers through the Python API (they name the nodes
    # themselves); the solutions are then validated against the trees they refer to
    case["_unnamed"] = gen.chance(draw, 1, 4)
    # species names that differ only in case, or that are prefixes of one another (the leaf assignment is explicit here)
    spelling = draw(st.sampled_from([None, None, None, "case-twins", "prefix-nested"]))
    if spelling:
        case = gen.respell_species(case, spelling)
        case["_spelling"] = spelling
    return case


def strategy(tier):
    _tier["name"] = tier
    return _case()


def check(case):
    group = case["_group"]
    labelled = group != "plain"
    if labelled and case.get("_syn_type") == "str":
        # one-letter family names (g0 -> a, g1 -> b, ...) so that a synteny can be a plain string
        case = dict(case, leaf_syntenies={k: [("abcdefghij"[int(f[1:])] if f[1:].isdigit() else "x") for f in v] for k, v in case["leaf_syntenies"].items()})
    unnamed = bool(case.get("_unnamed")) and labelled and all(k in case["leaf_object_species"] for k in case["leaf_syntenies"])
    if unnamed:
        case = dict(pkg.strip_ancestor_names(case))
    orig_o = parse_newick(case["object_tree"])
    orig_s = parse_newick(case["species_tree"])
    polytomous = not (orig_o.is_binary() and orig_s.is_binary())
    via_output = polytomous or unnamed
    labels = [f"group={group}"]
    if case.get("_chain"):
        labels.append("deep_chain")
    if polytomous:
        labels.append("polytomy")
    c = case["costs"]
    if c["SPECIATION"] + 2 * c["SEGMENTAL_LOSS"] > c["DUPLICATION"] + 2 * c["FULL_LOSS"]:
        labels.append("outside_region")
    if labelled and c["SEGMENTAL_LOSS"] == 0:
        labels.append("sloss=0")
    inst0 = None
    if unnamed:
        labels.append("unnamed_ancestors")
    if not via_output:
        inst0 = Instance(case)
        labels += [l for l in common_labels(inst0, labelled) if l.startswith(("obj=", "sp=", "fam=", "hgt", "empty"))]
    inp = pkg.make_input(case, labelled=labelled, label=not unnamed)
    syn_type = case.get("_syn_type", "list") if labelled else "list"
    if syn_type == "set" and not group.endswith("unordered"):
        syn_type = "tuple"
    if syn_type != "list":
        # same content, other container type, set on the input object before solving
        for node, syn in list(inp.leaf_syntenies.items()):
            inp.leaf_syntenies[node] = {"tuple": tuple, "set": set, "str": "".join}[syn_type](syn)
        labels.append(f"syntenies_as_{syn_type}")
    n_solutions = 0
    eventful = False
    nleaves = len(orig_o.leaves())
    for algo in GROUPS[group]:
        if algo == "exh" and nleaves > 6:
            continue
        mode, _ = MODE[algo]
        for policy in ("ALL", "ANY") if algo != "lca" else ("ALL",):
            free_losses = labelled and c["FULL_LOSS"] == 0 and c["SEGMENTAL_LOSS"] == 0 and nleaves > 4
            if policy == "ALL" and algo != "lca" and (nleaves > 6 or len(orig_s.leaves()) > 6 or free_losses):
                # co-optimal sets explode with zero costs on large inputs (and on labelled inputs above 4 leaves when both
                # loss costs are zero: one such polytomous case took 55 s): those run ANY only
                if "ALL_skipped_large" not in labels:
                    labels.append("ALL_skipped_large")
                continue
            outs = pkg.run_algo(algo, inp, policy)
            if policy == "ANY" and len(outs) > 1:
                raise Violation(f"{algo}.ANY.count", observed=len(outs), expected="at most 1")
            cap = CAP[_tier["name"]]
            if len(outs) > cap:
                ranked = sorted(outs, key=lambda o: repr(pkg.canon_output(o)))
                step = len(ranked) / cap
                outs = [ranked[int(i * step)] for i in range(cap)]
                if "capped" not in labels:
                    labels.append("capped")
            for out in outs:
                n_solutions += 1
                if via_output:
                    ocase, ot, stt = case_of_output(out, case["costs"])
                    check_refinement(orig_o, ot, f"{algo}.{policy}.object")
                    check_refinement(orig_s, stt, f"{algo}.{policy}.species")
                    if ocase["leaf_object_species"] != case["leaf_object_species"]:
                        raise Violation(f"{algo}.{policy}.V-TREES.leaf-species-changed", observed=ocase["leaf_object_species"],
                                        expected=case["leaf_object_species"])
                    # ordered model: the same sequences; unordered model: the same family sets (a set has no order)
                    norm = list if mode == "ordered" else sorted
                    if {k: norm(v) for k, v in ocase.get("leaf_syntenies", {}).items()} != {
                        k: norm(v) for k, v in case["leaf_syntenies"].items()
                    }:
                        raise Violation(f"{algo}.{policy}.V-TREES.leaf-syntenies-changed", observed=ocase.get("leaf_syntenies"),
                                        expected=case["leaf_syntenies"])
                    inst = Instance(ocase)
                    proot = prescribed_root_of(inst) if mode == "ordered" else None
                else:
                    inst = inst0
                    proot = prescribed_root_of(inst) if mode == "ordered" else None
                m, _lab, _tot = validate_output(inst, out, algo, policy, proot)
                _pat, counts = inst.rec_profile(m)
                if counts["D"] or counts["T"] or counts["L"]:
                    eventful = True
    if polytomous and not unnamed and syn_type == "list" and int(case_hash(case), 16) % 4 == 0:
        # the lines written by `superrec2 reconcile --solutions all`: each is a solution on the binary refinement it names
        import json

        from .. import stubs
        from superrec2.model.reconciliation import SuperReconciliationOutput

        algo = GROUPS[group][0]
        status, lines, _printed, err, _raw = stubs.cli_reconcile({k: v for k, v in case.items() if not k.startswith("_")}, algo, "all")
        if isinstance(status, str):
            raise Violation(f"cli.{algo}.exception", observed=err[-300:], expected="no exception")
        for line in lines[:60]:
            data = json.loads(line)
            out = pkg.guarded(SuperReconciliationOutput.from_dict, data)
            ocase, ot, stt = case_of_output(out, case["costs"])
            # (the input of a parsed-back output is a plain input: the leaf syntenies - and a prescribed root - are the case's)
            ocase["leaf_syntenies"] = {k: list(v) for k, v in case["leaf_syntenies"].items()}
            linst = Instance(ocase)
            validate_output(linst, out, algo, "ALL", prescribed_root_of(linst) if MODE[algo][0] == "ordered" else None)
            n_solutions += 1
        labels.append("cli_lines")
    labels.append("solutions=0" if n_solutions == 0 else "solutions>0")
    nontrivial = n_solutions > 0 and eventful and nleaves >= 3
    return Result(nontrivial, labels, evals=max(1, n_solutions))
