"""C07 - LCA reconciliation is the unique optimum of the duplication-loss model."""
from hypothesis import strategies as st

from .. import gen, pkg
from ..oracles import dtl_profiles
from ..plain import INF, Instance
from ..runner import Result, Violation

ID = "C07"
LEVEL = "exploration"
LEVEL_TEXT = (
    "Bounded-exhaustive: every plane binary object tree x every plane binary species tree x every leaf assignment up to 4x4 leaves (quick) / "
    "5x5 (thorough), each priced under all 36 (dup, floss) pairs in {0..5}^2 with transfers forbidden, against the minimum and the complete "
    "optimal set over all transfer-free reconciliations enumerated independently; plus random inputs up to 10 object / 8 species leaves "
    "compared with the general solver run with an infinite transfer cost."
)
LEVEL_NOTE = (
    "Trusted: parent-chain LCA and the enumerator of harness/plain.py. Speciation cost 0 (the statement quantifies over duplication and "
    "loss costs only). Larger sizes rely on reconcile_thl as a differential reference, itself checked by C01."
)
TECHNIQUE = "bounded-exhaustive enumeration + Hypothesis random inputs vs brute-force duplication-loss optimum and thl differential"
DESIGN_REF = "DESIGN.md section 5 (C07)"
RULE = (
    "Exhaustive layer: all plane binary shapes and leaf assignments (object<=4 x species<=4 leaves quick, 5x5 thorough); per input one "
    "enumeration of the transfer-free valid mappings, re-priced for dup, floss in {0..5}, spe=0.  Checked: reconcile_lca maps every internal "
    "node to the parent-chain LCA of the species of its leaves (with each of the 36 cost pairs set in place on the same input object; again after one leaf was moved to another species in place, and after it was moved back), is valid, its package cost == recount == minimum for all 36 pairs, and for "
    "floss>0 it is the only optimal mapping.  A fifth (exhaustive) / quarter (random) of the named cases give ancestral objects names of the form <species leaf>_<n> (either letter case) and leave the leaf assignment to be inferred from the names.  Random layer: inputs <=5/5 (same oracle) and <=10/8 leaves (reconcile_thl with hgt=inf must "
    "cost the same as reconcile_lca, 3 random cost pairs).  Ancestral nodes of both trees are unnamed in a third (exhaustive) / half (random) of the cases and results are read by clades.  One case in 16 (exhaustive) / 6 (random) is also run through `superrec2 reconcile ... lca` (unnamed ancestors written as empty names or as ete3's NoName, or partially labelled trees whose remaining labels look like generated ones, output path holding stale content) and the written solution, read by clades, must be the same mapping with the recounted cost printed.  Non-trivial: the LCA reconciliation has >=1 duplication and >=1 loss; "
    "distinct by SHA-1 of the input."
)
ASSUMPTIONS = ["speciation cost 0, transfers forbidden (infinite transfer cost)", "enumerator and parent-chain LCA of harness/plain.py"]
BUDGET = {"quick": {"random": 2000}, "thorough": {"random": 40000}}
EXHAUSTIVE_RULE = {
    "quick": "all plane binary shapes/assignments with object<=4 x species<=4 leaves, x 36 cost pairs",
    "thorough": "all plane binary shapes/assignments with object<=5 x species<=5 leaves, x 36 cost pairs",
}
PAIRS = [(d, f) for d in range(6) for f in range(6)]


@st.composite
def _case(draw):
    if draw(st.booleans()):
        case = draw(gen.rec_case(max_obj=5, max_sp=5, costs=None, misleading=True))
        case["_kind"] = "oracle"
    else:
        case = draw(gen.rec_case(max_obj=10, max_sp=8, min_obj=2, costs=None, misleading=True))
        case["_kind"] = "thl"
        case["_pairs"] = [[draw(st.integers(0, 5)), draw(st.integers(0, 5))] for _ in range(3)]
    case["_unnamed"] = draw(st.booleans())
    case["_move"] = draw(st.integers(0, 9))
    if gen.chance(draw, 1, 6):
        case["_cli"] = draw(st.sampled_from(["plain", "noname", "partial"]))
    if gen.chance(draw, 1, 4):
        case["_leaflike"] = [[draw(st.integers(-1, 9)), draw(st.booleans())] for _ in range(4)]
    return case


def strategy(tier):
    return _case()


def _strip_ancestor_names(case):
    """Same input with unnamed ancestral nodes in both trees (legal through the Python API)."""
    from ..plain import parse_newick

    out = dict(case)
    for key in ("object_tree", "species_tree"):
        t = parse_newick(case[key])
        for n in t.nodes():
            if not t.is_leaf(n):
                t.name[n] = ""
        out[key] = t.to_newick()
    return out


def _leaflike_ancestors(case, picks):
    """ancestral object nodes renamed "<species leaf>_<n>" (drawn species and letter case), leaf_object_species
    omitted so that the package infers it from the names."""
    from ..plain import parse_newick

    out = {k: v for k, v in case.items() if k != "leaf_object_species"}
    t = parse_newick(case["object_tree"])
    sleaves = sorted(set(case["leaf_object_species"].values()))
    k = 0
    for n in t.preorder():
        if not t.is_leaf(n):
            which, lower = picks[k % len(picks)]
            if which >= 0:
                sp = sleaves[which % len(sleaves)]
                t.name[n] = f"{sp.lower() if lower else sp}_{90 + k}"
            k += 1
    out["object_tree"] = t.to_newick()
    return out


def exhaustive(tier):
    n = 16 if tier == "quick" else 256
    return [(tier, i, n) for i in range(n)]


def run_job(job):
    tier, idx, mod = job
    size = 4 if tier == "quick" else 5
    for k, base in enumerate(gen.all_inputs(size, size)):
        if k % mod == idx:
            case = dict(base)
            case["_kind"] = "oracle"
            case["_unnamed"] = k % 3 == 0
            case["_move"] = k % 7
            if k % 16 == 5:
                case["_cli"] = ("noname", "plain", "partial")[(k // 16) % 3]
            if k % 5 == 1:
                case["_leaflike"] = [[k % 4 - 1, bool(k % 2)], [(k // 4) % 3, bool((k // 2) % 2)]]
            yield case


def _set_costs(inp, dup, floss):
    from superrec2.model.reconciliation import EdgeEvent, NodeEvent

    inp.costs[NodeEvent.SPECIATION] = 0
    inp.costs[NodeEvent.DUPLICATION] = dup
    inp.costs[NodeEvent.HORIZONTAL_TRANSFER] = pkg.INFINITY
    inp.costs[EdgeEvent.FULL_LOSS] = floss
    inp.costs[EdgeEvent.SEGMENTAL_LOSS] = 1


def check(case):
    base = {k: v for k, v in case.items() if not k.startswith("_")}
    base["costs"] = {"SPECIATION": 0, "DUPLICATION": 1, "HORIZONTAL_TRANSFER": INF, "FULL_LOSS": 1, "SEGMENTAL_LOSS": 1}
    inst = Instance(base)
    unnamed = bool(case.get("_unnamed"))
    honest = all(leaf.rsplit("_", 1)[0] == sp for leaf, sp in base["leaf_object_species"].items())
    leaflike = bool(case.get("_leaflike")) and not unnamed and honest
    given = _strip_ancestor_names(base) if unnamed else base
    if leaflike:
        # ancestral objects named like leaves of some species ("<species>_<n>", any letter case) and the leaf
        # assignment left to be inferred from the names: only leaves take their species from their names
        given = _leaflike_ancestors(base, case["_leaflike"])
    inp = pkg.make_input(given, labelled=False, label=not unnamed)
    out = pkg.run_algo("lca", inp)[0]
    # read the result by clades (ancestors may be unnamed), then express it with the harness's names
    oname = {inst.O.clade(n): inst.O.name[n] for n in inst.O.nodes()}
    sname = {inst.S.clade(n): inst.S.name[n] for n in inst.S.nodes()}

    def by_clade(o):
        return {oname[frozenset(k.get_leaf_names())]: sname[frozenset(v.get_leaf_names())] for k, v in o.object_species.items()}

    m = by_clade(out)
    expected = inst.lca_mapping()
    if m != expected:
        raise Violation("lca.mapping!=parent-chain-lca", observed=m, expected=expected, extra={"given": given["object_tree"]})
    # the mapping does not depend on the unit costs: the same input object with every (dup, loss) pair set in place
    for dup, floss in (PAIRS if case["_kind"] == "oracle" else [tuple(p) for p in case["_pairs"]]):
        _set_costs(inp, dup, floss)
        m2 = by_clade(pkg.run_algo("lca", inp)[0])
        if m2 != expected:
            raise Violation("lca.mapping!=parent-chain-lca", observed=m2, expected=expected, extra={"dup": dup, "floss": floss})
    # history: one leaf moved to another species in place on the same input object, solved again, moved back
    sleaves = [x for x in inst.snodes if not inst.schildren[x]]
    if len(sleaves) >= 2 and not leaflike:
        onode = {n.name: n for n in inp.object_tree.traverse()}
        snode = {n.name: n for n in inp.species_lca.tree.traverse()}
        leaf = inst.oleaves[case.get("_move", 0) % len(inst.oleaves)]
        target = sleaves[(sleaves.index(inst.los[leaf]) + 1 + case.get("_move", 0)) % len(sleaves)]
        if target != inst.los[leaf]:
            moved = dict(base, leaf_object_species=dict(base["leaf_object_species"], **{leaf: target}))
            inst2 = Instance(moved)
            inp.leaf_object_species[onode[leaf]] = snode[target]
            got = by_clade(pkg.run_algo("lca", inp)[0])
            if got != inst2.lca_mapping():
                raise Violation("lca.after-leaf-moved-in-place", observed=got, expected=inst2.lca_mapping(), extra={"leaf": leaf, "to": target})
            inp.leaf_object_species[onode[leaf]] = snode[inst.los[leaf]]
            if by_clade(pkg.run_algo("lca", inp)[0]) != expected:
                raise Violation("lca.after-leaf-moved-back", observed="differs", expected=expected, extra={"leaf": leaf, "to": target})
    if sorted(k.name for k in inp.leaf_object_species) != sorted(inst.oleaves) and not unnamed:
        raise Violation("lca.input-leaf-assignment-modified", observed=sorted(k.name for k in inp.leaf_object_species), expected=sorted(inst.oleaves))
    why = inst.mapping_valid(m)
    if why:
        raise Violation("lca.V-MAP." + why.split(":")[0], observed=m, expected="valid")
    if case.get("_cli"):
        # the command-line path (`superrec2 reconcile ... lca`): same file content (named, unnamed, NoName or leaf-like
        # ancestors), output path holding stale content; the single written solution is read back by clades
        import json

        from .. import stubs
        from ..plain import parse_newick

        cli_costs = dict(base["costs"], DUPLICATION=3 + case.get("_move", 0) % 3, FULL_LOSS=2 - case.get("_move", 0) % 3)
        data = dict(given, costs=cli_costs)
        if case.get("_move", 0) % 2 == 0:
            # the input may declare leaf syntenies: a plain algorithm ignores them (with a warning), nothing else changes
            data["leaf_syntenies"] = {leaf: ["g0"] for leaf in inst.oleaves}
        if case["_cli"] == "partial" and not unnamed and not leaflike:
            # partially labelled: ancestors keep generated-looking labels (O<k>/S<k>) in reverse pre-order and every other
            # one, starting with the root, is left unnamed - the labels handed out must avoid the ones further down
            for key in ("object_tree", "species_tree"):
                t = parse_newick(data[key])
                inner = [n for n in t.preorder() if not t.is_leaf(n)]
                names = [t.name[n] for n in inner][::-1]
                for i, n in enumerate(inner):
                    t.name[n] = "" if i % 2 == 0 else names[i]
                data[key] = t.to_newick()
        if case["_cli"] == "noname":
            for key in ("object_tree", "species_tree"):
                t = parse_newick(data[key])
                for n in t.nodes():
                    if not t.is_leaf(n) and t.name[n] == "":
                        t.name[n] = "NoName"
                data[key] = t.to_newick()
        status, lines, printed, err, _raw = stubs.cli_reconcile(data, "lca", "any", stale_output=True, decoy_file_costs=True)
        if status != 0 or len(lines) != 1:
            raise Violation("cli.lca.status-or-line-count", observed={"status": status, "lines": len(lines), "stderr": err[-300:]}, expected="status 0, one line")
        sol = json.loads(lines[0])
        ot, stt = parse_newick(sol["input"]["object_tree"]), parse_newick(sol["input"]["species_tree"])
        oc = {ot.name[n]: ot.clade(n) for n in ot.nodes()}
        sc = {stt.name[n]: stt.clade(n) for n in stt.nodes()}
        if len(oc) != len(ot.nodes()) or len(sc) != len(stt.nodes()):
            raise Violation("cli.lca.names-not-distinct", observed=[list(ot.name), list(stt.name)], expected="distinct names")
        got = {oname[oc[k]]: sname[sc[v]] for k, v in sol["object_species"].items()}
        if got != expected:
            raise Violation("cli.lca.mapping!=parent-chain-lca", observed=got, expected=expected)
        if printed != inst.rec_cost(expected, cli_costs):
            raise Violation("cli.lca.minimum-cost", observed=printed, expected=inst.rec_cost(expected, cli_costs), extra={"cost_options": cli_costs})
    _pat, lca_counts = inst.rec_profile(m)
    if lca_counts["T"]:
        raise Violation("lca.contains-transfer", observed=lca_counts, expected="no transfer")
    labels = [f"obj={len(inst.oleaves)}", f"kind={case['_kind']}"]
    evals = 0
    if case["_kind"] == "oracle":
        profiles = dtl_profiles(inst, no_transfer=True)
        for dup, floss in PAIRS:
            c = dict(inst.c, DUPLICATION=dup, FULL_LOSS=floss)
            costs = [(inst.profile_cost(cnt, c), mm) for mm, _p, cnt in profiles]
            best = min(x for x, _ in costs)
            _set_costs(inp, dup, floss)
            pc = pkg.pkg_cost(out)
            rc = inst.profile_cost(lca_counts, c)
            evals += 1
            if pc != rc:
                raise Violation("lca.cost!=recount", observed=pc, expected=rc, extra={"dup": dup, "floss": floss})
            if rc != best:
                raise Violation("lca.cost!=minimum", observed=rc, expected=best, extra={"dup": dup, "floss": floss})
            if floss > 0:
                optimal = [mm for x, mm in costs if x == best]
                if len(optimal) != 1 or optimal[0] != m:
                    other = next(mm for mm in optimal if mm != m)
                    raise Violation("lca.not-unique-optimum", observed=other, expected=m, extra={"dup": dup, "floss": floss})
    else:
        for dup, floss in case["_pairs"]:
            _set_costs(inp, dup, floss)
            lca_cost = pkg.pkg_cost(out)
            c = dict(inst.c, DUPLICATION=dup, FULL_LOSS=floss)
            if lca_cost != inst.profile_cost(lca_counts, c):
                raise Violation("lca.cost!=recount", observed=lca_cost, expected=inst.profile_cost(lca_counts, c))
            outs = pkg.run_algo("thl", inp, "ANY")
            evals += 1
            if not outs:
                raise Violation("thl.empty", observed=0, expected=1)
            tc = pkg.pkg_cost(outs[0])
            if tc != lca_cost:
                raise Violation("thl(hgt=inf).cost!=lca.cost", observed=tc, expected=lca_cost, extra={"dup": dup, "floss": floss})
    nontrivial = lca_counts["D"] >= 1 and lca_counts["L"] >= 1
    if nontrivial:
        labels.append("dup+loss")
    return Result(nontrivial, labels, evals=max(1, evals))
