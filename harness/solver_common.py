"""Helpers shared by the solver-level properties (C01-C05, C08-C10)."""
from __future__ import annotations

from . import pkg
from .oracles import OracleBug, RecOracle, TooLarge, brute_labelled, canon_solution, dtl_optimum, dtl_profiles
from .plain import (
    INF,
    Instance,
    check_ordered_labeling,
    check_unordered_labeling,
    total_cost,
)
from .runner import HarnessError, Skip, Violation

MODE = {
    "thl": ("plain", False),
    "exh": ("plain", False),
    "lca": ("plain", True),
    "ext_spfs": ("ordered", False),
    "base_spfs": ("ordered", True),
    "superdtl": ("unordered", False),
    "base_uspfs": ("unordered", True),
}

BRUTE_BUDGET = 400_000


def reference(inst: Instance, mode, restrict_lca=False, canonical=False, want_set=True, labels=None):
    """(optimum or None, complete optimal set or None).

    Memoised recursion, cross-checked against plain brute-force enumeration
    whenever the latter fits its budget (a disagreement is a harness error)."""
    try:
        rec = RecOracle(inst, mode, restrict_lca=restrict_lca, canonical=canonical)
        opt = rec.optimum()
        sols = rec.solutions() if want_set else None
    except TooLarge as exc:
        raise Skip(f"oracle_too_large:{exc}") from None
    try:
        if mode == "plain":
            b_opt, b_sols, _ = dtl_optimum(inst, dtl_profiles(inst, restrict_lca=restrict_lca, limit=200_000))
            b_set = {canon_solution(m) for m in b_sols}
        else:
            b_opt, b_set = brute_labelled(
                inst, mode == "ordered", restrict_lca=restrict_lca, canonical=canonical,
                budget=BRUTE_BUDGET, want_set=want_set,
            )
        if b_opt != opt or (want_set and b_set is not None and sols is not None and b_set != sols):
            raise HarnessError(
                f"oracle self-check failed: brute={b_opt} rec={opt} mode={mode} lca={restrict_lca} "
                f"canonical={canonical} case={inst.case}"
            )
        if labels is not None:
            labels.append("oracle=brute+rec")
    except TooLarge:
        if labels is not None:
            labels.append("oracle=rec-only")
    return opt, sols


def leaf_move(case, inst: Instance):
    """A second input that differs from `case` by one object leaf hosted by another species leaf (deterministic
    choice derived from the case), or None.  Returns (leaf, target species, moved case)."""
    sleaves = [x for x in inst.snodes if not inst.schildren[x]]
    if len(sleaves) < 2 or not inst.oleaves:
        return None
    salt = sum(map(ord, case["object_tree"])) + 3 * sum(map(ord, case["species_tree"]))
    leaf = inst.oleaves[salt % len(inst.oleaves)]
    target = sleaves[(sleaves.index(inst.los[leaf]) + 1 + salt % (len(sleaves) - 1)) % len(sleaves)]
    moved = {k: v for k, v in case.items() if not k.startswith("_")}
    moved["leaf_object_species"] = dict(inst.los, **{leaf: target})
    return leaf, target, moved


def set_leaf_species_inplace(inp, leaf, species):
    """inp.leaf_object_species[<leaf node>] = <species node>, on the input object itself."""
    onode = next(n for n in inp.object_tree.traverse() if n.name == leaf)
    snode = next(n for n in inp.species_lca.tree.traverse() if n.name == species)
    inp.leaf_object_species[onode] = snode


def set_costs_inplace(inp, costs):
    from superrec2.model.reconciliation import EdgeEvent, NodeEvent

    for key, value in costs.items():
        event = getattr(NodeEvent, key) if hasattr(NodeEvent, key) else getattr(EdgeEvent, key)
        inp.costs[event] = pkg.INFINITY if (value == INF and pkg.use_infinity_object({"costs": costs})) else value


def maybe_alt_families(case, every=4):
    """One case in `every` (by content) gets family names whose spellings are related: prefixes of one another, natural
    vs string order differing, digit-leading (g1/g10/g100, 16S, trnA, x1y10/x1y9 ...).  The names carry no meaning."""
    from . import gen
    from .runner import case_hash

    if "leaf_syntenies" not in case or int(case_hash(case), 16) % every:
        return case
    fams = sorted({f for v in case["leaf_syntenies"].values() for f in v})
    if not all(f[:1] == "g" and f[1:].isdigit() for f in fams):
        return case
    fmap = {f: ["g1", "g10", "g100", "g2", "16S", "trnA", "g11", "x1y10", "x1y9", "G2", "0", "g"][int(f[1:]) % 12] for f in fams}
    return gen.rename_families(case, fmap)


def validate_output(inst: Instance, out, algo, policy, prescribed_root=None):
    """V-MAP (+ V-ORD / V-UNO), finite cost, package cost == recount.
    Returns (mapping, labelling or None, recount total)."""
    tag = f"{algo}.{policy}"
    mode, _ = MODE[algo]
    m = pkg.mapping_names(out)
    why = inst.mapping_valid(m)
    if why is not None:
        raise Violation(f"{tag}.V-MAP.{why.split(':')[0]}", observed=m, expected="valid reconciliation")
    lab = None
    if mode != "plain":
        lab = pkg.synteny_names(out)
        if bool(out.ordered) != (mode == "ordered"):
            raise Violation(f"{tag}.ordered-flag", observed=out.ordered, expected=(mode == "ordered"))
        if mode == "ordered":
            why = check_ordered_labeling(inst, lab, prescribed_root)
            if why is not None:
                raise Violation(f"{tag}.V-ORD.{why.split(':')[0]}", observed=lab, expected="valid ordered labelling", extra={"why": why})
        else:
            why = check_unordered_labeling(inst, lab)
            if why is not None:
                raise Violation(f"{tag}.V-UNO.{why.split(':')[0]}", observed=lab, expected="valid unordered labelling", extra={"why": why})
    rc, lc, tot = total_cost(inst, m, lab, ordered=(mode == "ordered"))
    if tot == INF:
        raise Violation(f"{tag}.infinite-cost", observed="inf", expected="finite cost", extra={"mapping": m})
    pc = pkg.pkg_cost(out)
    if pc != tot:
        raise Violation(f"{tag}.cost!=recount", observed=pc, expected=tot, extra={"mapping": m, "labelling": lab})
    return m, lab, tot


def prescribed_root_of(inst: Instance):
    if inst.oroot in inst.lsyn and inst.ochildren[inst.oroot]:
        return list(inst.lsyn[inst.oroot])
    return None


def common_labels(inst: Instance, labelled=True):
    c = inst.c
    labels = [f"obj={len(inst.oleaves)}", f"sp={sum(1 for s in inst.snodes if not inst.schildren[s])}"]
    if labelled:
        fams = {f for l in inst.oleaves for f in inst.lsyn[l]}
        labels.append(f"fam={len(fams)}")
        if c["SEGMENTAL_LOSS"] == 0:
            labels.append("sloss=0")
        if c["SPECIATION"] + 2 * c["SEGMENTAL_LOSS"] == c["DUPLICATION"] + 2 * c["FULL_LOSS"]:
            labels.append("region_boundary")
    if c["SPECIATION"] > 0:
        labels.append("spe>0")
    if c["FULL_LOSS"] == 0:
        labels.append("floss=0")
    if c["HORIZONTAL_TRANSFER"] == INF:
        labels.append("hgt=inf")
    if c["HORIZONTAL_TRANSFER"] == 0:
        labels.append("hgt=0")
    used = set(inst.los.values())
    if any(not inst.schildren[s] and s not in used for s in inst.snodes):
        labels.append("empty_species")
    return labels


def solution_features(inst: Instance, sols, mode):
    """labels describing a set of canonical optimal solutions."""
    labels = set()
    eventful = False
    for sol in sols or ():
        ms = sol if mode == "plain" else sol[0]
        m = dict(ms)
        pat, counts = inst.rec_profile(m)
        if counts["T"]:
            labels.add("hgt_used")
        if counts["D"]:
            labels.add("dup_used")
        if counts["L"]:
            labels.add("loss_used")
        if counts["D"] or counts["T"] or counts["L"]:
            eventful = True
        if m != inst.lca_mapping():
            labels.add("non_lca_mapping")
    return sorted(labels), eventful


# ---------------------------------------------------------------------------
# outputs that refer to refined (binarised) trees
# ---------------------------------------------------------------------------
def case_of_output(out, costs):
    """Plain case dictionary of the input an output refers to (read from the
    objects, not from to_dict)."""
    from .plain import from_ete

    ot = from_ete(out.input.object_tree)
    st = from_ete(out.input.species_lca.tree)
    case = {
        "object_tree": ot.to_newick(with_features=False),
        "species_tree": st.to_newick(with_features=False),
        "leaf_object_species": {k.name: v.name for k, v in out.input.leaf_object_species.items()},
        "costs": dict(costs),
    }
    if hasattr(out.input, "leaf_syntenies"):
        case["leaf_syntenies"] = {k.name: list(v) for k, v in out.input.leaf_syntenies.items()}
    return case, ot, st


def check_refinement(orig, refined, tag):
    """V-TREES for one tree: refined is binary, has the same leaves, keeps
    every clade of the original, and the name/colour of every named original
    node sits on the node with the same clade."""
    if not refined.is_binary():
        raise Violation(f"{tag}.V-TREES.not-binary", observed=refined.to_newick(), expected="binary tree")
    if sorted(refined.name[l] for l in refined.leaves()) != sorted(orig.name[l] for l in orig.leaves()):
        raise Violation(f"{tag}.V-TREES.leaf-set", observed=refined.to_newick(), expected=orig.to_newick())
    by_clade = {}
    for n in refined.nodes():
        by_clade.setdefault(refined.clade(n), []).append(n)
    for n in orig.nodes():
        cl = orig.clade(n)
        if cl not in by_clade:
            raise Violation(f"{tag}.V-TREES.clade-lost", observed=refined.to_newick(), expected=sorted(cl))
        if orig.is_leaf(n):
            continue
        targets = by_clade[cl]
        name = orig.name[n]
        if name not in ("", "NoName") and not any(refined.name[t] == name for t in targets):
            raise Violation(f"{tag}.V-TREES.name-lost", observed=[refined.name[t] for t in targets], expected=name)
        col = orig.features[n].get("color")
        if col is not None and not any(refined.features[t].get("color") == col for t in targets):
            raise Violation(f"{tag}.V-TREES.colour-lost", observed=[refined.features[t] for t in targets], expected=col)
    names = [refined.name[n] for n in refined.nodes()]
    if len(set(names)) != len(names) or any(x in ("", "NoName") for x in names):
        raise Violation(f"{tag}.V-TREES.names-not-unique", observed=names, expected="distinct non-empty names")
