"""C09 - results do not depend on presentation and respond sanely to the costs."""
import json
import os
import subprocess
import sys
import tempfile

from hypothesis import strategies as st

from .. import gen, pkg
from ..plain import INF, Instance, parse_newick
from ..runner import ROOT, HarnessError, Result, Violation, case_hash
from ..solver_common import MODE, common_labels

ID = "C09"
LEVEL = "exploration"
LEVEL_TEXT = (
    "Metamorphic random search well beyond brute-force reach (up to 10 object leaves / 8 species / 4 families): each source input is solved, "
    "transformed (children reordered, everything renamed, outgroup added, costs scaled, one cost raised, solved again in-process and in fresh "
    "processes under different hash seeds) and the stated relation between the two results (cost and complete optimal set) is asserted."
)
LEVEL_NOTE = (
    "Trusted: only the transformations and the name maps of this module. The relations cannot see an error that is invariant under all "
    "transformations (C01-C03/C05 cover those at small size). Outgroup relation at floss=0 uses the sound reading argued in DESIGN.md (old set "
    "included in new set, every extra solution touches the new root). Costs stay inside the coherent region before and after each change."
)
TECHNIQUE = "property-based testing: metamorphic relations over Hypothesis random inputs + fresh-process determinism runs"
DESIGN_REF = "DESIGN.md section 5 (C09)"
RULE = (
    "Hypothesis cases: binary input with 2..10 object leaves (five cases in six with <=6 object / <=5 species leaves, where sets are compared; the others 7..10 object leaves), <=8 species leaves (quick tier: ext_spfs <=8 object / <=6 species leaves), <=4 families, coherent costs, one of thl, ext_spfs, superdtl, "
    "base_spfs, base_uspfs and drawn transformation parameters.  Relations checked per case: R1 children reversed at drawn nodes of both trees "
    "(same cost, same set); R2 bijective renaming of object nodes, species and families (same cost, same set modulo the bijection); R3 outgroup "
    "species without objects above the root (same cost; same set if floss>0, else old set included and every extra solution maps a node to the "
    "new root); R4 solving again on the same input object, on a re-parsed input, and on the same object after its costs were changed in place and changed back (identical to fresh inputs with those costs); R5 all costs x k, k in {2,3,5} (cost x k, same "
    "set); R6 one unit cost raised by 1..3 inside the region (cost not lower).  Sets are compared (policy ALL) up to 6 object leaves unless they can explode (sloss=0 with >2 families, floss=hgt=0 with >1 family, >6 root orders), costs "
    "only (policy ANY) otherwise; at 7..9 object leaves sets are compared for thl, base_spfs, base_uspfs and superdtl when every unit cost is positive.  Extra part: a batch of cases is solved in 3 fresh interpreters with PYTHONHASHSEED 0, 1 and VERIF_SEED and the "
    "JSON results must be identical.  Non-trivial: >=3 object leaves and the source optimum has positive cost; distinct by SHA-1 of the case."
)
ASSUMPTIONS = ["coherent costs before and after every transformation", "fresh names never look like O#/S#/NoName"]
BUDGET = {"quick": {"random": 3000}, "thorough": {"random": 24000}}
ALGOS = ["thl", "ext_spfs", "superdtl", "base_spfs", "base_uspfs"]
SET_LIMIT_LEAVES = 6


@st.composite
def _case(draw, tier="thorough"):
    algo = draw(st.sampled_from(ALGOS))
    labelled = algo != "thl"
    # ext_spfs at 9-10 object leaves x 8 species x 4 families without a prescribed root costs ~8 s per solve and a case
    # needs 12 solves: the quick tier stops at 8 x 6 for that solver (measured: 4 such cases took 360 of 380 s of a shard)
    max_obj, max_sp = (8, 6) if (tier == "quick" and algo == "ext_spfs") else (10, 8)
    min_obj = 2
    if gen.chance(draw, 5, 6):
        # five cases in six are small enough for the complete optimal sets to be compared (cheap: the relations on
        # sets are where most presentation-dependence shows); the sixth is beyond brute-force reach, costs only
        max_obj, max_sp = SET_LIMIT_LEAVES, 5
    else:
        min_obj = SET_LIMIT_LEAVES + 1
    case = draw(gen.rec_case(max_obj=max_obj, max_sp=max_sp, min_obj=min_obj, costs="coherent", labelled=labelled, max_fam=4,
                             prescribed_root=(algo in ("ext_spfs", "base_spfs")),
                             allow_inconsistent=(algo in ("ext_spfs", "base_spfs"))))
    case["_algo"] = algo
    case["_flips"] = draw(st.lists(st.booleans(), min_size=40, max_size=40))
    case["_perm"] = draw(st.permutations(list(range(12))))
    case["_scale"] = draw(st.sampled_from([2, 3, 5]))
    case["_raise"] = [draw(st.sampled_from(["DUPLICATION", "FULL_LOSS", "HORIZONTAL_TRANSFER", "SPECIATION", "SEGMENTAL_LOSS"])),
                      draw(st.integers(1, 3))]
    return case


def strategy(tier):
    return _case(tier)


# --- transformations --------------------------------------------------------
def _base(case):
    return {k: v for k, v in case.items() if not k.startswith("_")}


def t_flip(case):
    flips = iter(case["_flips"])
    out = _base(case)
    for key in ("object_tree", "species_tree"):
        t = parse_newick(case[key])
        for n in t.preorder():
            if t.children[n] and next(flips, False):
                t.children[n].reverse()
        out[key] = t.to_newick()
    return out


def t_rename(case):
    perm = case["_perm"]
    ot, stt = parse_newick(case["object_tree"]), parse_newick(case["species_tree"])
    fams = sorted({f for s in case.get("leaf_syntenies", {}).values() for f in s})
    omap = {name: f"n{perm[i % 12]}x{i}" for i, name in enumerate(ot.name)}
    smap = {name: f"p{perm[(i + 3) % 12]}y{i}" for i, name in enumerate(stt.name)}
    fmap = {f: f"q{perm[(i + 5) % 12]}z{i}" for i, f in enumerate(fams)}
    ot.name = [omap[x] for x in ot.name]
    stt.name = [smap[x] for x in stt.name]
    out = _base(case)
    out["object_tree"] = ot.to_newick()
    out["species_tree"] = stt.to_newick()
    out["leaf_object_species"] = {omap[k]: smap[v] for k, v in case["leaf_object_species"].items()}
    if "leaf_syntenies" in case:
        out["leaf_syntenies"] = {omap[k]: [fmap[f] for f in v] for k, v in case["leaf_syntenies"].items()}
    return out, omap, smap, fmap


def t_outgroup(case):
    out = _base(case)
    out["species_tree"] = "(" + case["species_tree"].rstrip(";") + ",ZZ)ROOTX;"
    return out


def t_scale(case):
    k = case["_scale"]
    out = _base(case)
    out["costs"] = {e: (INF if v == INF else v * k) for e, v in case["costs"].items()}
    return out


def t_raise(case, labelled):
    which, by = case["_raise"]
    c = dict(case["costs"])
    if c[which] == INF:
        which = "DUPLICATION"
    c[which] += by
    if not gen.in_region(c, labelled):
        # constructed, not filtered: raise a right-hand-side cost instead
        c = dict(case["costs"])
        which = "FULL_LOSS"
        c[which] += by
    out = _base(case)
    out["costs"] = c
    return out, which


# --- solving ----------------------------------------------------------------
def solve(case, algo, want_set):
    labelled = algo != "thl"
    inp = pkg.make_input(case, labelled=labelled)
    outs = pkg.run_algo(algo, inp, "ALL" if want_set else "ANY")
    return _summary(outs, algo, want_set), inp


def _set_costs_inplace(inp, costs):
    from superrec2.model.reconciliation import EdgeEvent, NodeEvent

    for key, value in costs.items():
        event = getattr(NodeEvent, key) if hasattr(NodeEvent, key) else getattr(EdgeEvent, key)
        inp.costs[event] = pkg.INFINITY if (value == INF and pkg.use_infinity_object({"costs": costs})) else value


def _summary(outs, algo, want_set):
    mode = MODE[algo][0]
    costs = {pkg.pkg_cost(o) for o in outs}
    if len(costs) > 1:
        raise Violation(f"{algo}.unequal-costs-in-result", observed=sorted(costs), expected="one cost")
    cost = costs.pop() if costs else None
    sols = None
    if want_set:
        sols = set()
        for o in outs:
            m = frozenset(pkg.mapping_names(o).items())
            if mode == "plain":
                sols.add(m)
            elif mode == "ordered":
                sols.add((m, frozenset((k, tuple(v)) for k, v in pkg.synteny_names(o).items())))
            else:
                sols.add((m, frozenset((k, frozenset(v)) for k, v in pkg.synteny_names(o).items())))
    return cost, sols


def _rename_set(sols, algo, omap, smap, fmap):
    mode = MODE[algo][0]
    out = set()
    for s in sols:
        if mode == "plain":
            out.add(frozenset((omap[k], smap[v]) for k, v in s))
            continue
        m, lab = s
        m2 = frozenset((omap[k], smap[v]) for k, v in m)
        if mode == "ordered":
            l2 = frozenset((omap[k], tuple(fmap[f] for f in v)) for k, v in lab)
        else:
            l2 = frozenset((omap[k], frozenset(fmap[f] for f in v)) for k, v in lab)
        out.add((m2, l2))
    return out


def _sets_affordable(inst, algo):
    """Complete optimal sets are compared only where they cannot explode: with free labellings (sloss = 0 and
    more than two families), free losses and transfers together, or many compatible root orders, the number of
    co-optimal solutions of a 6-leaf input reaches millions (measured: one such case ran for 47 minutes).  Those
    cases are still run, comparing costs only."""
    c = inst.c
    if algo == "thl":
        return True
    nfam = len({f for l in inst.oleaves for f in inst.lsyn[l]})
    if c["SEGMENTAL_LOSS"] == 0 and nfam > 2:
        return False
    if c["FULL_LOSS"] == 0 and c["HORIZONTAL_TRANSFER"] == 0 and nfam > 1:
        return False
    if algo in ("ext_spfs", "base_spfs"):
        from ..oracles import root_orders

        if len(root_orders(inst)) > 6:
            return False
    return True


def _want_set(inst, algo):
    n = len(inst.oleaves)
    if n <= SET_LIMIT_LEAVES:
        return _sets_affordable(inst, algo)
    # beyond 6 leaves: only where ties are rare (every unit cost positive) and the solver is fast enough
    c = inst.c
    positive = all(c[k] > 0 for k in ("DUPLICATION", "FULL_LOSS", "SEGMENTAL_LOSS", "HORIZONTAL_TRANSFER"))
    return positive and n <= 9 and algo in ("superdtl", "base_uspfs", "thl", "base_spfs") and _sets_affordable(inst, algo)


def check(case):
    algo = case["_algo"]
    labelled = algo != "thl"
    inst = Instance(case)
    labels = common_labels(inst, labelled) + [f"algo={algo}"]
    want_set = _want_set(inst, algo)
    labels.append("sets_compared" if want_set else "costs_only")
    if want_set and len(inst.oleaves) > SET_LIMIT_LEAVES:
        labels.append("sets_compared_beyond_6_leaves")
    src = _base(case)
    (c0, s0), inp0 = solve(src, algo, want_set)

    def same(tag, got, exp_cost, exp_set):
        c1, s1 = got
        if c1 != exp_cost:
            raise Violation(f"{tag}.cost", observed=c1, expected=exp_cost, extra={"algo": algo})
        if want_set and s1 != exp_set:
            raise Violation(f"{tag}.set", observed=f"{len(s1)} solutions", expected=f"{len(exp_set)} solutions",
                            extra={"algo": algo, "only_new": [str(x)[:300] for x in list(s1 - exp_set)[:1]],
                                   "only_old": [str(x)[:300] for x in list(exp_set - s1)[:1]]})

    # R4: again on the same input object, and on a re-parsed input
    outs_again = pkg.run_algo(algo, inp0, "ALL" if want_set else "ANY")
    same("R4.same-object", _summary(outs_again, algo, want_set), c0, s0)
    same("R4.reparsed", solve(src, algo, want_set)[0], c0, s0)
    # R4 (history): the same input object with its unit costs changed in place (as callers and the package's
    # own tests do), solved, then changed back: each result must equal the one of a freshly parsed input
    for tag, other_costs in (("raised", t_raise(case, labelled)[0]["costs"]), ("no-transfer", dict(src["costs"], HORIZONTAL_TRANSFER=INF))):
        _set_costs_inplace(inp0, other_costs)
        got = _summary(pkg.run_algo(algo, inp0, "ALL" if want_set else "ANY"), algo, want_set)
        fresh = solve(dict(src, costs=other_costs), algo, want_set)[0]
        same(f"R4.costs-changed-in-place.{tag}", got, fresh[0], fresh[1])
    _set_costs_inplace(inp0, src["costs"])
    same("R4.costs-restored-in-place", _summary(pkg.run_algo(algo, inp0, "ALL" if want_set else "ANY"), algo, want_set), c0, s0)
    # R1
    same("R1.children-reordered", solve(t_flip(case), algo, want_set)[0], c0, s0)
    # R2
    renamed, omap, smap, fmap = t_rename(case)
    same("R2.renamed", solve(renamed, algo, want_set)[0], c0, _rename_set(s0, algo, omap, smap, fmap) if want_set else None)
    # R3
    c3, s3 = solve(t_outgroup(case), algo, want_set)[0]
    if c3 != c0:
        raise Violation("R3.outgroup.cost", observed=c3, expected=c0, extra={"algo": algo})
    if want_set:
        if inst.c["FULL_LOSS"] > 0:
            if s3 != s0:
                raise Violation("R3.outgroup.set", observed=f"{len(s3)} solutions", expected=f"{len(s0)} solutions", extra={"algo": algo})
        else:
            if not s0 <= s3:
                raise Violation("R3.outgroup.set-lost-solution", observed=f"{len(s3)} solutions", expected=f">= the {len(s0)} old ones")
            for extra in s3 - s0:
                m = extra if MODE[algo][0] == "plain" else extra[0]
                if not any(v == "ROOTX" for _k, v in m):
                    raise Violation("R3.outgroup.set-extra-not-at-new-root", observed=str(extra)[:300], expected="extra solutions use the new root")
    # R5
    k = case["_scale"]
    same("R5.scaled", solve(t_scale(case), algo, want_set)[0], None if c0 is None else (INF if c0 == INF else c0 * k), s0)
    # R6
    raised, which = t_raise(case, labelled)
    c6, _ = solve(raised, algo, False)[0]
    if (c0 is None) != (c6 is None):
        raise Violation("R6.raised.emptiness", observed=c6, expected=c0)
    if c0 is not None and c6 < c0:
        raise Violation("R6.raised-cost-lowered-minimum", observed=c6, expected=f">= {c0}", extra={"raised": which, "algo": algo})
    if c0 is None:
        labels.append("no_solution")
    nontrivial = len(inst.oleaves) >= 3 and c0 is not None and c0 > 0
    return Result(nontrivial, labels, evals=8)


# --- fresh-process determinism ------------------------------------------------
def collect_cases(n, seed, tier="thorough"):
    import hypothesis
    from hypothesis import HealthCheck, Phase, given, settings

    cases = []

    @hypothesis.seed(seed * 7919 + 17)
    @settings(max_examples=n, database=None, deadline=None, suppress_health_check=list(HealthCheck), phases=[Phase.generate])
    @given(_case(tier))
    def grab(case):
        cases.append(case)

    grab()
    return cases


def worker_main(path):
    """Runs in a fresh interpreter: solve every case of the file, print JSON."""
    with open(path) as fh:
        cases = json.load(fh)
    res = []
    for case in cases:
        algo = case["_algo"]
        want_set = _want_set(Instance(_base(case)), algo)
        try:
            (cost, sols), _ = solve(_base(case), algo, want_set)
            res.append([None if cost is None else str(cost), None if sols is None else sorted(repr(_plain(s)) for s in sols)])
        except Violation as v:
            res.append(["violation", v.clause])
    print(json.dumps(res))


def _plain(s):
    if isinstance(s, (frozenset, set)):
        return sorted((_plain(x) for x in s), key=repr)
    if isinstance(s, tuple):
        return tuple(_plain(x) for x in s)
    return s


def extra(tier, seed, stats, deadline):
    n = 60 if tier == "quick" else 600
    cases = collect_cases(n, seed, tier)
    fails = []
    with tempfile.TemporaryDirectory(prefix="verif-c09-") as tmp:
        path = os.path.join(tmp, "cases.json")
        with open(path, "w") as fh:
            json.dump(cases, fh)
        outputs = {}
        procs = {}
        for hs in sorted({0, 1, seed % 4294967295}):
            env = dict(os.environ, PYTHONHASHSEED=str(hs))
            procs[hs] = subprocess.Popen(
                [sys.executable, "-c", "import sys; from harness.props import c09; c09.worker_main(sys.argv[1])", path],
                cwd=ROOT, env=env, stdout=subprocess.PIPE, stderr=subprocess.PIPE, text=True)
        for hs, p in procs.items():
            out, err = p.communicate()
            if p.returncode != 0:
                raise HarnessError(f"C09 worker (PYTHONHASHSEED={hs}) failed: {err[-1500:]}")
            outputs[hs] = json.loads(out.strip().splitlines()[-1])
    keys = sorted(outputs)
    ref = outputs[keys[0]]
    for i, case in enumerate(cases):
        stats.evaluations += len(keys)
        for hs in keys[1:]:
            if outputs[hs][i] != ref[i]:
                fails.append({"case": case, "clause": "R4.fresh-process-differs",
                              "observed": f"PYTHONHASHSEED={hs}: {str(outputs[hs][i])[:300]}",
                              "expected": f"PYTHONHASHSEED={keys[0]}: {str(ref[i])[:300]}", "extra": {}})
                break
        if ref[i][0] == "violation":
            fails.append({"case": case, "clause": "R4.fresh-process." + ref[i][1], "observed": ref[i], "expected": "no violation", "extra": {}})
    stats.classes["fresh_process_cases"] += len(cases)
    return fails
