"""C17 - ancestry queries on trees are exact."""
import itertools

from hypothesis import strategies as st

from ..runner import Result, Violation

ID = "C17"
LEVEL = "exploration"
LEVEL_TEXT = (
    "Bounded-exhaustive: all ordered rooted trees (any arity, unary nodes included) up to 6 nodes (quick) / 7 nodes (thorough), every node pair "
    "and triple, against parent-chain definitions; all non-empty arrays over {0,1,2} up to length 8 (quick) / 9 (thorough) with every range for "
    "the range-minimum structure; plus random trees up to 40 nodes and random arrays up to 60 elements."
)
LEVEL_NOTE = "Trusted: parent-chain definitions in this module (first common element of two root paths), Python's min over a slice."
TECHNIQUE = "bounded-exhaustive enumeration of tree shapes/arrays + Hypothesis random inputs vs parent-chain definitions"
DESIGN_REF = "DESIGN.md section 7 (C17)"
RULE = (
    "Exhaustive: every ordered rooted tree with 1..6 (quick) / 1..7 (thorough) nodes; for all node pairs: LCA == first common node of the two "
    "root paths, is_ancestor_of, is_strict_ancestor_of, is_comparable, distance; level for every node; for all triples: LCA of three == deepest "
    "common ancestor; a second query structure built for each subtree below the root (same node objects) answers for that subtree and leaves the first one intact; after a prune-and-regraft edit of the tree in place (all single moves up to 5 nodes) a structure built afterwards for the same root describes the new shape.  Nodes carry branch lengths 1, 0 or 2.5 (level and distance count edges, not lengths).  Range-minimum: all arrays over {0,1,2} of length 1..8 / 1..9, all (start, stop) with 0 <= start, stop <= len (empty ranges "
    "give None).  Random: trees up to 40 nodes with random arities (queries on 30 drawn tuples of 1-4 nodes), arrays up to 60 elements.  "
    "Non-trivial: tree with >=2 internal nodes / array of length >=2; distinct by SHA-1 of the shape/array."
    '  Node labels are drawn from a small pool with repeats (queries are about node objects).'
)
ASSUMPTIONS = ["trees are not modified after the query structure is built (documented precondition)"]
BUDGET = {"quick": {"random": 2000}, "thorough": {"random": 40000}}
EXHAUSTIVE_RULE = {"quick": "ordered rooted trees with <=6 nodes; arrays over {0,1,2} with length <=8", "thorough": "trees <=7 nodes; arrays length <=9"}
EXHAUSTIVE_COMPLETE = False


def ordered_trees(n):
    """all ordered rooted trees with n nodes as nested tuples of children."""
    if n == 1:
        return [()]

    def forests(k):
        if k == 0:
            return [()]
        out = []
        for first in range(1, k + 1):
            for t in ordered_trees(first):
                for rest in forests(k - first):
                    out.append((t,) + rest)
        return out

    return forests(n - 1)


def exhaustive(tier):
    return [(tier, i, 16) for i in range(16)] + [("deep", 0, 1)]


def run_job(job):
    tier, idx, mod = job
    if tier == "deep":
        # depth is not bounded by the small shapes: one caterpillar and one path-with-leaves 300 levels deep (levels
        # beyond 255, tours longer than 512), queried on a sample of pairs
        yield {"kind": "deep", "depth": 300}
        return
    top_t, top_a = (6, 8) if tier == "quick" else (7, 9)
    k = 0
    for n in range(1, top_t + 1):
        for shape in ordered_trees(n):
            k += 1
            if k % mod == idx:
                yield {"kind": "tree", "shape": shape, "_exh": True}
    for length in range(1, top_a + 1):
        for arr in itertools.product((0, 1, 2), repeat=length):
            k += 1
            if k % mod == idx:
                yield {"kind": "rmq", "array": list(arr), "_exh": True}


@st.composite
def _random(draw):
    if draw(st.booleans()):
        n = draw(st.integers(1, 40))
        parents = [None] + [draw(st.integers(0, i - 1)) for i in range(1, n)]
        queries = [[draw(st.integers(0, n - 1)) for _ in range(draw(st.integers(1, 4)))] for _ in range(30)]
        return {"kind": "tree_parents", "parents": parents, "queries": queries}
    arr = draw(st.lists(st.integers(-3, 3), min_size=1, max_size=60))
    return {"kind": "rmq", "array": arr}


def strategy(tier):
    return _random()


def _build(case):
    from ete3 import Tree

    root = Tree()
    nodes = [root]
    parent = {0: None}
    if case["kind"] == "tree":
        def rec(node_idx, shape):
            for ch in shape:
                c = nodes[node_idx].add_child(Tree())
                nodes.append(c)
                parent[len(nodes) - 1] = node_idx
                rec(len(nodes) - 1, ch)
        rec(0, _tuplify(case["shape"]))
    else:
        for i, p in enumerate(case["parents"]):
            if i == 0:
                continue
            c = nodes[p].add_child(Tree())
            nodes.append(c)
            parent[i] = p
    # branch lengths are data of the tree, not part of its shape: levels and distances count edges whatever the
    # lengths are (deterministic pattern derived from the node index; 1.0 - ete3's default - for every third node)
    for i, node in enumerate(nodes):
        node.dist = (1.0, 0.0, 2.5)[i % 3] if case.get("_lengths", True) else 1.0
        # labels are data too, and need not be unique: queries are about node objects
        node.name = ("a", "b", "", "a", "c")[(i * 7 + len(nodes)) % 5]
    return nodes, parent


def _tuplify(x):
    return tuple(_tuplify(y) for y in x)


def _check_deep(case):
    from ete3 import Tree
    from superrec2.utils.trees import LowestCommonAncestor

    depth = case["depth"]
    root = Tree()
    spine, leaves = [root], []
    for _ in range(depth):
        leaves.append(spine[-1].add_child(Tree()))
        spine.append(spine[-1].add_child(Tree()))
    lca = LowestCommonAncestor(root)
    evals = 0
    for i in range(0, depth + 1, 7):
        if lca.level(spine[i]) != i:
            raise Violation("lca.deep.level", observed=lca.level(spine[i]), expected=i)
        for j in range(i, depth, 13):
            # leaf j hangs from spine[j]: the deepest common ancestor of spine[i] (i <= j) and that leaf is spine[i]
            got = lca(spine[i], leaves[j])
            if got is not spine[i]:
                raise Violation("lca.deep.pair", observed="other node", expected=f"spine node at depth {i}", extra={"i": i, "j": j})
            if lca.distance(spine[i], leaves[j]) != j - i + 1:
                raise Violation("lca.deep.distance", observed=lca.distance(spine[i], leaves[j]), expected=j - i + 1, extra={"i": i, "j": j})
            if i < j and lca(leaves[i], leaves[j]) is not spine[i]:
                raise Violation("lca.deep.two-leaves", observed="other node", expected=f"spine node at depth {i}", extra={"i": i, "j": j})
            if not lca.is_ancestor_of(spine[i], leaves[j]) or lca.is_ancestor_of(leaves[j], spine[i]):
                raise Violation("lca.deep.is_ancestor_of", observed="wrong", expected="spine node above the leaf", extra={"i": i, "j": j})
            evals += 4
    return Result(True, ["deep"], evals=evals)


def check(case):
    if case["kind"] == "rmq":
        return _check_rmq(case)
    if case["kind"] == "deep":
        return _check_deep(case)
    from superrec2.utils.trees import LowestCommonAncestor

    nodes, parent = _build(case)
    n = len(nodes)
    lca = LowestCommonAncestor(nodes[0])

    def chain(i):
        out = [i]
        while parent[out[-1]] is not None:
            out.append(parent[out[-1]])
        return out

    chains = [chain(i) for i in range(n)]
    evals = 0

    def deepest_common(idx):
        common = [x for x in chains[idx[0]] if all(x in chains[j] for j in idx[1:])]
        return common[0]

    def pair(a, b):
        ca, cb = chains[a], chains[b]
        exp = deepest_common([a, b])
        if lca(nodes[a], nodes[b]) is not nodes[exp]:
            raise Violation("lca.pair", observed="other node", expected=exp, extra={"a": a, "b": b})
        checks = (
            ("is_ancestor_of", lca.is_ancestor_of(nodes[a], nodes[b]), a in cb),
            ("is_strict_ancestor_of", lca.is_strict_ancestor_of(nodes[a], nodes[b]), a in cb and a != b),
            ("is_comparable", lca.is_comparable(nodes[a], nodes[b]), (a in cb) or (b in ca)),
            ("distance", lca.distance(nodes[a], nodes[b]), ca.index(exp) + cb.index(exp)),
        )
        for name, got, want in checks:
            if got != want:
                raise Violation(f"lca.{name}", observed=got, expected=want, extra={"a": a, "b": b})

    if case.get("_exh"):
        for a in range(n):
            if lca.level(nodes[a]) != len(chains[a]) - 1:
                raise Violation("lca.level", observed=lca.level(nodes[a]), expected=len(chains[a]) - 1)
            if lca(nodes[a]) is not nodes[a]:
                raise Violation("lca.single", observed="other", expected=a)
            for b in range(n):
                pair(a, b)
                evals += 1
                for c in range(n):
                    if lca(nodes[a], nodes[b], nodes[c]) is not nodes[deepest_common([a, b, c])]:
                        raise Violation("lca.triple", observed="other node", expected=deepest_common([a, b, c]), extra={"q": [a, b, c]})
                    evals += 1
    else:
        for q in case["queries"]:
            if lca(*[nodes[i] for i in q]) is not nodes[deepest_common(q)]:
                raise Violation("lca.tuple", observed="other node", expected=deepest_common(q), extra={"q": q})
            if lca.level(nodes[q[0]]) != len(chains[q[0]]) - 1:
                raise Violation("lca.level", observed=lca.level(nodes[q[0]]), expected=len(chains[q[0]]) - 1)
            if len(q) >= 2:
                pair(q[0], q[1])
            evals += 1
    # several query structures over the same node objects: one per subtree hanging below the root,
    # built after the full-tree structure; every structure must answer for its own tree
    kids = [i for i in range(n) if parent[i] == 0]
    if not case.get("_exh"):
        kids = kids[:1]
    for k in kids:
        sub = LowestCommonAncestor(nodes[k])
        members = [i for i in range(n) if k in chains[i]]
        sub_chain = {i: chains[i][: chains[i].index(k) + 1] for i in members}
        for a in members:
            if sub.level(nodes[a]) != len(sub_chain[a]) - 1:
                raise Violation("lca.subtree-instance.level", observed=sub.level(nodes[a]), expected=len(sub_chain[a]) - 1)
            for b in members:
                exp = next(x for x in sub_chain[a] if x in sub_chain[b])
                if sub(nodes[a], nodes[b]) is not nodes[exp]:
                    raise Violation("lca.subtree-instance.pair", observed="other node", expected=exp, extra={"a": a, "b": b, "subtree": k})
                if sub.distance(nodes[a], nodes[b]) != sub_chain[a].index(exp) + sub_chain[b].index(exp):
                    raise Violation("lca.subtree-instance.distance", observed=sub.distance(nodes[a], nodes[b]),
                                    expected=sub_chain[a].index(exp) + sub_chain[b].index(exp))
                evals += 1
        # the first structure still answers for the whole tree
        for a in members[:3]:
            if lca.level(nodes[a]) != len(chains[a]) - 1 or lca(nodes[a], nodes[0]) is not nodes[0]:
                raise Violation("lca.first-instance-disturbed", observed=lca.level(nodes[a]), expected=len(chains[a]) - 1)
    # the tree edited in place after a structure was built for it: a structure built afterwards for the
    # same root object must describe the new shape (all single prune-and-regraft moves on small trees,
    # one drawn move otherwise)
    moves = [(v, p) for v in range(1, n) for p in range(n) if p != parent[v] and v not in chains[p]]
    if not case.get("_exh") or n > 5:
        moves = moves[: 1 if not case.get("_exh") else 6]
    for v, p in moves:
        nodes2, parent2 = _build(case)
        LowestCommonAncestor(nodes2[0])  # a structure for the original shape exists first
        nodes2[v].detach()
        nodes2[p].add_child(nodes2[v])
        parent2 = dict(parent2)
        parent2[v] = p
        lca2 = LowestCommonAncestor(nodes2[0])

        def chain2(i):
            out = [i]
            while parent2[out[-1]] is not None:
                out.append(parent2[out[-1]])
            return out

        ch2 = [chain2(i) for i in range(n)]
        for a in range(n):
            if lca2.level(nodes2[a]) != len(ch2[a]) - 1:
                raise Violation("lca.rebuilt-after-edit.level", observed=lca2.level(nodes2[a]), expected=len(ch2[a]) - 1,
                                extra={"moved": v, "under": p})
            for b in range(n):
                exp = next(x for x in ch2[a] if x in ch2[b])
                if lca2(nodes2[a], nodes2[b]) is not nodes2[exp]:
                    raise Violation("lca.rebuilt-after-edit.pair", observed="other node", expected=exp,
                                    extra={"a": a, "b": b, "moved": v, "under": p})
                evals += 1
    internal = sum(1 for i in range(n) if any(parent[j] == i for j in range(n)))
    return Result(internal >= 2, [f"nodes={min(n, 10)}{'+' if n >= 10 else ''}", "tree"], evals=max(1, evals))


def _check_rmq(case):
    from superrec2.utils.range_min_query import RangeMinQuery

    arr = case["array"]
    # the data is any sequence of elements that support `<` (the declared protocol): by content hash a list, a tuple, a
    # deque (a sequence without slicing), or a list of wrappers that define __lt__ and nothing else
    import collections

    variant = (sum(arr) + len(arr)) % 4

    class OnlyLt:
        __slots__ = ("v",)

        def __init__(self, v):
            self.v = v

        def __lt__(self, other):
            return self.v < other.v

    data = [list(arr), tuple(arr), collections.deque(arr), [OnlyLt(x) for x in arr]][variant]
    rmq = RangeMinQuery(data)
    unwrap = (lambda x: None if x is None else x.v) if variant == 3 else (lambda x: x)
    evals = 0
    for a in range(len(arr) + 1):
        for b in range(len(arr) + 1):
            exp = min(arr[a:b]) if a < b else None
            got = unwrap(rmq(a, b))
            evals += 1
            if got != exp:
                raise Violation("rmq.range", observed=got, expected=exp, extra={"start": a, "stop": b, "data": type(data).__name__, "variant": variant})
    return Result(len(arr) >= 2, ["rmq", f"len={min(len(arr), 10)}{'+' if len(arr) >= 10 else ''}"], evals=evals)
