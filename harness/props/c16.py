"""C16 - a dynamic-programming entry holds the optimum and the tags of optimal candidates."""
import itertools

from hypothesis import strategies as st

from ..plain import INF
from ..runner import Result, Violation

ID = "C16"
LEVEL = "exploration"
LEVEL_TEXT = (
    "Model-based testing of Entry/Table against a list-of-offered-candidates model: bounded-exhaustive over ALL update histories up to length 4 "
    "(quick) / 5 (thorough) over values {0,1,2} x tags {none,a,b}, every split into update batches, the 2x3 policy combinations, standalone "
    "entries and cells of 1-3 dimensional tables (list/dict dimensions, assignment and proxy update), with the invariant checked after every "
    "batch; plus random histories up to 40 candidates with combine steps."
)
LEVEL_NOTE = (
    "Trusted: the model in this module (min/max of offered values; tags of optimal tagged candidates; all/one/none by retention). Candidate "
    "values are finite and tags are non-empty strings, as in every caller; default-initialised entries only."
)
TECHNIQUE = "model-based testing: bounded-exhaustive update histories + Hypothesis random histories vs reference model of an entry"
DESIGN_REF = "DESIGN.md section 7 (C16)"
RULE = (
    "Exhaustive layer: histories = sequences of candidates (value in {0,1,2}, tag in {none,a,b}) of length 0..4 (quick) / 0..5 (thorough); each "
    "history x every composition into batches x MergePolicy {MIN,MAX} x RetentionPolicy {NONE,ANY,ALL} x target {standalone Entry, Table(List), "
    "Table(Dict), Table(List,Dict), Table(Dict,Dict,List), Table(List,List,List), Table(List,List,Dict), Table(Dict,List,List)} through proxy.update(*batch), and through table[key] = candidate for one-candidate "
    "batches.  A handle obtained (and read) before the first write is kept and re-read after every batch, and in a second pass every other batch is written through it.  After every batch: value() == min/max of offered values (+-inf if none); infos() within the tags of optimal tagged candidates: all "
    "of them (ALL), exactly one if any exists (ANY), none (NONE); len/iter/info()/is_infinite() consistent; every cell differing from the written one in exactly one coordinate (and one differing in all) reads +-inf, no tags, "
    "len 0.  At the end the entry is combined with entries built from two fixed histories and a random one: result == model optimum over the "
    "product of retained tags.  Random layer: Hypothesis histories up to 40 candidates over values -5..5 and 4 tags.  evaluations = histories x "
    "splits x policies x targets executed.  Non-trivial: the history contains an improving candidate after a tagged one, or a tie; distinct by "
    "SHA-1 of the history."
    '  Every combination result is then offered four more candidates (model compared after each); the combination of nothing must be infinitely bad for the merge policy.'
)
ASSUMPTIONS = ["finite candidate values; tags are truthy (non-empty strings or tuples)", "default-initialised entries"]
BUDGET = {"quick": {"random": 3000}, "thorough": {"random": 60000}}
FUZZ = {"quick": {"runs": 5000, "max_time": 60}, "thorough": {"runs": 300000, "max_time": 900}}
EXHAUSTIVE_RULE = {"quick": "all histories of length <= 4 (7381) x all batch splits x 6 policies x 5 targets (8 up to length 3)",
                   "thorough": "all histories of length <= 5 (66430) x all batch splits x 6 policies x 5 targets (8 up to length 3)"}
EXHAUSTIVE_COMPLETE = False

VALUES = (0, 1, 2)
TAGS = (None, "a", "b")
CANDS = [(v, t) for v in VALUES for t in TAGS]
TARGETS = ("entry", "L", "D", "LD", "DDL", "LLL", "LLD", "DLL")


def exhaustive(tier):
    top = 4 if tier == "quick" else 5
    return [(top, i, 48) for i in range(48)]


def run_job(job):
    top, idx, mod = job
    k = 0
    for n in range(top + 1):
        for hist in itertools.product(CANDS, repeat=n):
            k += 1
            if k % mod == idx:
                yield {"hist": [list(c) for c in hist], "_exh": True}


def strategy(tier):
    cand = st.tuples(st.integers(-5, 5), st.sampled_from([None, "a", "b", "c", "d"])).map(list)
    return st.fixed_dictionaries({
        "hist": st.lists(cand, min_size=0, max_size=40),
        "cuts": st.lists(st.booleans(), min_size=40, max_size=40),
        "other": st.lists(cand, min_size=0, max_size=8),
        "merge": st.sampled_from(["MIN", "MAX"]),
        "retention": st.sampled_from(["NONE", "ANY", "ALL"]),
        "target": st.sampled_from(TARGETS),
        "comb": st.sampled_from(["sum", "first"]),
    })


# --- model -------------------------------------------------------------------
def model(offered, merge, retention):
    """(value, allowed tags, exact?)"""
    if not offered:
        return (INF if merge == "MIN" else -INF), set()
    vals = [v for v, _ in offered]
    opt = min(vals) if merge == "MIN" else max(vals)
    tags = {t for v, t in offered if v == opt and t is not None}
    return opt, tags


_order = [0]


def check_entry(entry, offered, merge, retention, where):
    from superrec2.utils.dynamic_programming import Candidate

    opt, tags = model(offered, merge, retention)
    # whichever accessor is asked first: every other check starts with another one (len, iteration, info, infos, is_infinite)
    _order[0] += 1
    first = _order[0] % 6
    if first == 1 and len(entry) != (len(tags) if retention == "ALL" else (1 if tags and retention == "ANY" else 0)):
        raise Violation("entry.len.asked-first", observed=len(entry), expected="number of retained tags", extra={"where": where})
    if first == 2 and len(list(entry)) != (len(tags) if retention == "ALL" else (1 if tags and retention == "ANY" else 0)):
        raise Violation("entry.iter.asked-first", observed=len(list(entry)), expected="number of retained tags", extra={"where": where})
    if first == 3 and (entry.info() is None) != (not tags or retention == "NONE"):
        raise Violation("entry.info.asked-first", observed=str(entry.info()), expected="a tag iff one is retained", extra={"where": where})
    if first == 4 and entry.is_infinite() != (not offered):
        raise Violation("entry.is_infinite.asked-first", observed=entry.is_infinite(), expected=not offered, extra={"where": where})
    if first == 5 and not (set(entry.infos()) <= tags):
        raise Violation("entry.infos.asked-first", observed=sorted(map(str, entry.infos())), expected=sorted(map(str, tags)), extra={"where": where})
    val = entry.value()
    if val != opt:
        raise Violation("entry.value", observed=str(val), expected=str(opt), extra={"where": where})
    infos = set(entry.infos())
    if retention == "ALL":
        ok = infos == tags
    elif retention == "ANY":
        ok = (len(infos) == 1 and infos <= tags) if tags else not infos
    else:
        ok = not infos
    if not ok:
        raise Violation("entry.tags", observed=sorted(map(str, infos)), expected=f"{retention} of {sorted(tags)}", extra={"where": where})
    if len(entry) != len(infos):
        raise Violation("entry.len", observed=len(entry), expected=len(infos))
    it = list(entry)
    if sorted((str(c.value), str(c.info)) for c in it) != sorted((str(val), str(i)) for i in infos):
        raise Violation("entry.iter", observed=[str(c) for c in it], expected=sorted(map(str, infos)))
    one = entry.info()
    if (one is None) != (not infos) or (infos and one not in infos):
        raise Violation("entry.info", observed=str(one), expected=f"member of {sorted(map(str, infos))}")
    if entry.is_infinite() != (not offered):
        raise Violation("entry.is_infinite", observed=entry.is_infinite(), expected=not offered)
    return opt, tags


def make_target(target, merge, retention):
    """Returns (get_entry, set_one or None, untouched cell getter)."""
    from superrec2.utils.dynamic_programming import (
        DictDimension, Entry, ListDimension, MergePolicy, RetentionPolicy, Table,
    )

    mp, rp = MergePolicy[merge], RetentionPolicy[retention]
    if target == "entry":
        e = Entry(mp, rp)
        return (lambda: e), None, None
    dims = {"L": (ListDimension(3),), "D": (DictDimension(),), "LD": (ListDimension(2), DictDimension()),
            "DDL": (DictDimension(), DictDimension(), ListDimension(2)),
            "LLL": (ListDimension(2), ListDimension(3), ListDimension(2)),
            "LLD": (ListDimension(3), ListDimension(2), DictDimension()),
            "DLL": (DictDimension(), ListDimension(2), ListDimension(2))}[target]
    key = {"L": (1,), "D": ("k",), "LD": (1, "x"), "DDL": ("p", ("q", 1), 0), "LLL": (1, 2, 0), "LLD": (2, 0, "x"), "DLL": ("p", 1, 0)}[target]
    # every cell that differs from the written one in exactly one coordinate (and one that differs in all) must stay unwritten
    alt = {"L": [(0,), (2,)], "D": [("other",)], "LD": [(0, "x"), (1, "y"), (0, "y")], "DDL": [("zz", ("q", 1), 0), ("p", "zz", 0), ("p", ("q", 1), 1), ("p", "zz", 1)],
           "LLL": [(0, 2, 0), (1, 0, 0), (1, 1, 0), (1, 2, 1), (0, 0, 1)], "LLD": [(0, 0, "x"), (1, 0, "x"), (2, 1, "x"), (2, 0, "y"), (0, 1, "y")],
           "DLL": [("zz", 1, 0), ("p", 0, 0), ("p", 1, 1), ("zz", 0, 1)]}[target]
    t = Table(dims, mp, rp)

    def cell(k):
        x = t
        for part in k:
            x = x[part]
        return x

    def set_one(cand):
        x = t
        for part in key[:-1]:
            x = x[part]
        x[key[-1]] = cand

    return (lambda: cell(key)), set_one, (lambda: [cell(k) for k in alt])


def compositions(n):
    """all ways to cut a sequence of n items into consecutive non-empty batches (as cut flags)."""
    if n == 0:
        yield ()
        return
    for cuts in itertools.product((False, True), repeat=n - 1):
        yield cuts


def split(hist, cuts):
    batches, cur = [], []
    for i, c in enumerate(hist):
        cur.append(c)
        if i == len(hist) - 1 or cuts[i]:
            batches.append(cur)
            cur = []
    return batches


def run_history(hist, cuts, merge, retention, target, use_set, others, comb, held_writes=False):
    from superrec2.utils.dynamic_programming import Candidate, Entry, MergePolicy, RetentionPolicy

    get, set_one, untouched = make_target(target, merge, retention)
    offered = []
    # a handle taken (and read) before the first write must keep showing the cell, whichever path writes
    held = get()
    check_entry(held, offered, merge, retention, "initial")
    for k, batch in enumerate(split(hist, cuts)):
        cands = [Candidate(v, t) for v, t in batch]
        if use_set and set_one is not None and len(cands) == 1:
            set_one(cands[0])
        elif held_writes and k % 2 == 1:
            held.update(*cands)
        else:
            get().update(*cands)
        offered.extend((v, t) for v, t in batch)
        check_entry(get(), offered, merge, retention, f"after {len(offered)} candidates")
        check_entry(held, offered, merge, retention, f"held handle after {len(offered)} candidates")
        if untouched is not None:
            for i, other_cell in enumerate(untouched()):
                check_entry(other_cell, [], merge, retention, f"untouched cell #{i}")
    # combine
    a = get()
    # an entry combined with itself: every ordered pair of its retained tags is a candidate
    selfc = (lambda x, y: Candidate(x.value + y.value, (x.info, y.info)))
    res_self = a.combine(a, selfc)
    prod_self = [(a.value() + a.value(), (ia, ib)) for ia in a.infos() for ib in a.infos()]
    check_entry(res_self, prod_self, merge, retention, "combine with itself")
    for oh in others:
        b = Entry(MergePolicy[merge], RetentionPolicy[retention])
        b.update(*[Candidate(v, t) for v, t in oh])
        if comb == "sum":
            f = lambda x, y: Candidate(x.value + y.value, (x.info, y.info))  # noqa: E731
        else:
            f = lambda x, y: Candidate(x.value * 2 + (1 if y.info == "a" else 0), (x.info, y.info))  # noqa: E731
        res = a.combine(b, f)
        pairs = [(ia, ib) for ia in a.infos() for ib in b.infos()]
        prod = []
        for ia, ib in pairs:
            c = f(Candidate(a.value(), ia), Candidate(b.value(), ib))
            prod.append((c.value, c.info))
        # the combination of nothing is infinitely BAD for the merge policy (+inf for MIN, -inf for MAX), with no tags;
        # check_entry asserts exactly that for an empty list of offered candidates
        check_entry(res, prod, merge, retention, "combine")
        # the result is an entry like any other: candidates offered to it afterwards compete with what it holds, under
        # the same merge and retention policies
        # (tags of one entry are mutually orderable - info() takes their minimum: the later tags are pairs like the combined ones)
        later = [(1, ("b", "b")), (0, None), (1, ("a", "z")), (2, ("c", "c"))] if merge == "MIN" else [(1, ("b", "b")), (2, None), (1, ("a", "z")), (0, ("c", "c"))]
        for k, (v, t) in enumerate(later):
            res.update(Candidate(v, t))
            check_entry(res, prod + later[: k + 1], merge, retention, f"combine, then {k + 1} more candidates")


FIXED_OTHERS = ([(1, "a"), (1, "b"), (0, None)], [(2, "b"), (2, "a")])


def check(case):
    hist = [tuple(c) for c in case["hist"]]
    evals = 0
    improving = any(
        hist[j][0] != hist[i][0] and hist[i][1] is not None for i in range(len(hist)) for j in range(i + 1, len(hist))
    )
    tie = len({v for v, _ in hist}) < len(hist)
    if case.get("_exh"):
        for cuts in compositions(len(hist)):
            for merge in ("MIN", "MAX"):
                for retention in ("NONE", "ANY", "ALL"):
                    for target in TARGETS:
                        if target in ("LLL", "LLD", "DLL") and len(hist) > 3:
                            continue  # the three 3-dimensional list targets take the histories up to length 3 (all lengths in the random layer)
                        run_history(hist, cuts, merge, retention, target, False, FIXED_OTHERS, "sum")
                        evals += 1
                        if target != "entry" and len(hist) >= 2 and (merge, retention) in (("MIN", "ALL"), ("MAX", "ANY")):
                            run_history(hist, cuts, merge, retention, target, False, (), "sum", held_writes=True)
                            evals += 1
                        if target != "entry" and all(cuts):
                            run_history(hist, cuts, merge, retention, target, True, (), "sum")
                            evals += 1
    else:
        others = FIXED_OTHERS + ([tuple(c) for c in case["other"]],)
        run_history(hist, case["cuts"], case["merge"], case["retention"], case["target"], False, others, case["comb"])
        run_history(hist, case["cuts"], case["merge"], case["retention"], case["target"], True, others, case["comb"])
        run_history(hist, case["cuts"], case["merge"], case["retention"], case["target"], False, (), case["comb"], held_writes=True)
        evals = 3
    labels = [f"len={min(len(hist), 10)}{'+' if len(hist) >= 10 else ''}"]
    if improving:
        labels.append("improving_after_tagged")
    if tie:
        labels.append("tie")
    return Result(len(hist) >= 2 and (improving or tie), labels, evals=max(1, evals))
