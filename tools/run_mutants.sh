#!/bin/bash
# tools/run_mutants.sh [name-prefix]  -- runs every hand mutant (or those matching prefix) against the checks listed for it
# in mutants/hand/index.json (only the checks that exist), in parallel; prints killed/survived per (mutant, check).
cd "$(dirname "$0")/.." || exit 2
PFX=${1:-}
python3 - "$PFX" <<'PY' > /tmp/mutant_jobs.txt
import json,sys,os
idx=json.load(open("mutants/hand/index.json"))
for name,props in sorted(idx.items()):
    if not name.startswith(sys.argv[1]): continue
    for p in props:
        if os.path.exists(f"harness/props/{p.lower()}.py"):
            print(f"mutants/hand/{name}.diff {p}")
PY
# each check already uses 16 processes; run 3 mutants at a time
cat /tmp/mutant_jobs.txt | xargs -P 3 -L 1 bash -c 'BASELINE=${BASELINE:-0} tools/mutant.sh $0 $1 2>&1 | tail -1 | cut -c1-220'
