#!/bin/bash
# MANIFEST.setup_cmd: make hypothesis importable for /venv/bin/python, offline.
cd "$(dirname "$0")" || exit 1
PY=/venv/bin/python
if $PY -c "import hypothesis" >/dev/null 2>&1; then
  echo "hypothesis already importable"
else
  /venv/bin/pip install --no-index --find-links /opt/veriftools/wheels --target "$PWD/.deps" hypothesis || exit 1
fi
PYTHONPATH="/repo/src:$PWD/.deps:$PWD" $PY -c "import hypothesis, superrec2, harness.runner; print('setup ok: hypothesis', hypothesis.__version__)"
