"""C06 - the cost evaluator implements the documented event model."""
from .. import gen, pkg, stubs
from ..plain import INF, Instance, labeling_losses, times, total_cost
from ..runner import Result, Violation, case_hash

ID = "C06"
LEVEL = "exploration"
LEVEL_TEXT = (
    "Local exhaustive layer (all synteny triples over 4-5 families x 5 event patterns x both models) plus: "
    "For random binary inputs (<=5 object / <=5 species leaves) EVERY valid species mapping is enumerated independently of the package and "
    "each is evaluated by the package (node events, reconciliation, labelling and total cost, ordered and unordered, random valid labellings, "
    "arbitrary non-negative costs up to 5 or infinite transfer cost) and by an independent recount on parent chains and explicit lists; any "
    "disagreement is a violation. A sample of inputs also goes through the command line and its printed minimum cost is recounted."
)
LEVEL_NOTE = (
    "Trusted: the recount in harness/plain.py (written from the property statement: unit event costs, one full loss per skipped species edge, "
    "lost runs per child with end runs free for the partial copy), the mapping enumerator, Hypothesis. Only valid reconciliations are judged."
)
TECHNIQUE = "property-based testing: differential check of the package evaluator vs an independent recount over all valid mappings of random inputs"
DESIGN_REF = "DESIGN.md section 5 (C06), 4.1"
RULE = (
    "Local exhaustive layer (see exhaustive_layer) + Hypothesis cases: binary input (<=5/<=5 leaves), <=4 families (consistent leaf orders), free costs in {0..5} with hgt possibly infinite, one "
    "random valid ordered labelling and one random valid unordered labelling (top-down construction).  For every valid species mapping of the "
    "input (all of them up to 1500, else an evenly spaced deterministic subset): node_event of every node, cost() of the plain output, "
    "reconciliation_cost(), labeling_cost(), cost() of the ordered and unordered labelled outputs == independent recount; the same output objects evaluated again after every unit cost was changed in place must give the recount under the new costs, and one output object per kind whose species mapping is updated in place through up to 24 of the valid mappings must evaluate to the recount of its current content after each update.  One case in 8 also "
    "runs `reconcile` in-process (thl/ext_spfs/superdtl, any|all) and compares the printed 'Minimum cost' with the recount of each written "
    "solution.  evaluations = reconciliations compared.  Non-trivial case: >=3 object leaves, some mapping with >=2 event kinds and a labelling "
    "with >=1 charged segmental loss; distinct by SHA-1 of the case."
    '  Also: a third of the cases use family names whose natural, string and case orders differ; the command-line clause prices the written solutions with the requested cost options (scaled by 1234567 in every other case, default-valued options omitted, decoy costs in the file) and also runs lca/thl on the labelled input.'
)
ASSUMPTIONS = ["only valid (super-)reconciliations are evaluated", "independent recount of harness/plain.py"]
BUDGET = {"quick": {"random": 1200}, "thorough": {"random": 20000}}
MAP_CAP = 1500


def strategy(tier):
    return gen.labelled_reconciliation_case(max_obj=5, max_sp=5, max_fam=4, costs="free", maxcost=5)


EXHAUSTIVE_RULE = {
    "quick": "local layer: object tree ((x,y)n,z)r with z carrying all of 4 families; for each event of n (speciation, duplication at its species, "
             "duplication above it, transfer with the left / the right child transferred) every triple (synteny of n, of x, of y) with x and y "
             "non-empty subsequences of n's - 479 triples - evaluated as ordered and as unordered labelling under two cost vectors",
    "thorough": "the same with 5 families (2 671 triples per event)",
}
EXHAUSTIVE_COMPLETE = False  # the random layer is not exhaustive
LOCAL_EVENTS = {
    # name: (species of x, of y, of n) on the species tree ((SA,SB)S1,SC)S0; z is in SC except where n needs the whole tree
    "speciation": ("SA", "SB", "S1"),
    "duplication": ("SA", "SA", "SA"),
    "duplication-above": ("SA", "SA", "S1"),
    "transfer-right": ("SA", "SC", "SA"),
    "transfer-left": ("SC", "SA", "SA"),
}


def exhaustive(tier):
    return [("local", ev, 4 if tier == "quick" else 5) for ev in LOCAL_EVENTS]


def run_job(job):
    _, ev, nf = job
    yield {"_kind": "local", "event": ev, "families": nf}


def check_local(case):
    import itertools

    from superrec2.model.reconciliation import SuperReconciliationOutput

    nf = case["families"]
    fams = [f"g{i}" for i in range(nf)]
    sx, sy, sn = LOCAL_EVENTS[case["event"]]
    evals = 0
    for costs in ({"SPECIATION": 0, "DUPLICATION": 1, "HORIZONTAL_TRANSFER": 1, "FULL_LOSS": 1, "SEGMENTAL_LOSS": 1},
                  {"SPECIATION": 2, "DUPLICATION": 3, "HORIZONTAL_TRANSFER": 5, "FULL_LOSS": 7, "SEGMENTAL_LOSS": 11}):
        base = {
            "object_tree": f"(({sx}_0,{sy}_1)N,SC_2)R;", "species_tree": "((SA,SB)S1,SC)S0;",
            "leaf_object_species": {f"{sx}_0": sx, f"{sy}_1": sy, "SC_2": "SC"}, "costs": costs,
        }
        x, y = f"{sx}_0", f"{sy}_1"
        m = {x: sx, y: sy, "SC_2": "SC", "N": sn, "R": "S0"}
        for mask_n in range(1, 1 << nf):
            syn_n = [f for i, f in enumerate(fams) if mask_n >> i & 1]
            subs = [[f for i, f in enumerate(syn_n) if mk >> i & 1] for mk in range(1, 1 << len(syn_n))]
            for syn_x, syn_y in itertools.product(subs, repeat=2):
                full = dict(base, leaf_syntenies={x: syn_x, y: syn_y, "SC_2": fams})
                inst = Instance(full)
                lab = {x: syn_x, y: syn_y, "SC_2": fams, "N": syn_n, "R": fams}
                inp = pkg.make_input(full, labelled=True)
                onode = {n.name: n for n in inp.object_tree.traverse()}
                snode = {n.name: n for n in inp.species_lca.tree.traverse()}
                mo = {onode[k]: snode[v] for k, v in m.items()}
                for ordered in (True, False):
                    syn = {onode[k]: (list(v) if ordered else set(v)) for k, v in lab.items()}
                    out = pkg.guarded(SuperReconciliationOutput, input=inp, object_species=mo, syntenies=syn, ordered=ordered)
                    rc, lc, tot = total_cost(inst, m, lab, ordered=ordered)
                    got = (pkg.guarded(out.reconciliation_cost), pkg.guarded(out.labeling_cost), pkg.guarded(out.cost))
                    evals += 1
                    if got != (rc, lc, tot):
                        raise Violation(f"eval.local.{'ordered' if ordered else 'unordered'}.{case['event']}", observed=list(got), expected=[rc, lc, tot],
                                        extra={"node": syn_n, "left": syn_x, "right": syn_y, "costs": costs})
    return Result(True, ["local", case["event"]], evals=evals)


def _event_name(inst, m, n):
    if not inst.ochildren[n]:
        return "LEAF"
    k, _ = inst.event(m, n)
    return "T" if k[0] == "T" else k


def check(case):
    if case.get("_kind") == "local":
        return check_local(case)
    from superrec2.model.reconciliation import ReconciliationOutput, SuperReconciliationOutput

    if int(case_hash(case), 16) % 3 == 0:
        # family names whose natural-sort, string-sort and case orders differ (g9/g10, 16S, trnA, x1y10/x1y9 ...)
        fams0 = sorted({f for v in case["leaf_syntenies"].values() for f in v})
        case = gen.rename_families(case, gen.alt_family_map(fams0, salt=int(case_hash(case), 16) % 7))
    inst = Instance(case)
    lab_o, lab_u = case["_lab_o"], case["_lab_u"]
    inp = pkg.make_input(case, labelled=True)
    onode = {n.name: n for n in inp.object_tree.traverse()}
    snode = {n.name: n for n in inp.species_lca.tree.traverse()}
    syn_o = {onode[k]: list(v) for k, v in lab_o.items()}
    # unordered labellings are handed over as sets for odd hashes, lists otherwise (both are accepted inputs)
    as_set = int(case_hash(case), 16) % 2 == 1
    syn_u = {onode[k]: (set(v) if as_set else list(v)) for k, v in lab_u.items()}
    mappings = list(inst.all_mappings())
    if len(mappings) > MAP_CAP:
        step = len(mappings) / MAP_CAP
        mappings = [mappings[int(i * step)] for i in range(MAP_CAP)]
    kinds_max = 0
    charged = False
    for m in mappings:
        mo = {onode[k]: snode[v] for k, v in m.items()}
        out = pkg.guarded(ReconciliationOutput, inp, mo)
        for n in inst.onodes:
            got = pkg.EVENT_KIND[pkg.guarded(out.node_event, onode[n])]
            exp = _event_name(inst, m, n)
            if got != exp:
                raise Violation("eval.node_event", observed=got, expected=exp, extra={"node": n, "mapping": m})
        pat, counts = inst.rec_profile(m)
        kinds_max = max(kinds_max, sum(1 for k in ("S", "D", "T", "L") if counts[k]))
        rc = inst.profile_cost(counts)
        pc = pkg.pkg_cost(out)
        if pc != rc:
            raise Violation("eval.cost.plain", observed=pc, expected=rc, extra={"mapping": m})
        for ordered, syn, lab in ((True, syn_o, lab_o), (False, syn_u, lab_u)):
            tag = "ordered" if ordered else "unordered"
            sout = pkg.guarded(SuperReconciliationOutput, input=inp, object_species=mo, syntenies=syn, ordered=ordered)
            nl = labeling_losses(inst, pat, lab, ordered)
            if nl:
                charged = True
            lc = times(inst.c["SEGMENTAL_LOSS"], nl)
            got_rc = pkg.guarded(sout.reconciliation_cost)
            got_lc = pkg.guarded(sout.labeling_cost)
            got_tot = pkg.guarded(sout.cost)
            if got_rc != rc:
                raise Violation(f"eval.reconciliation_cost.{tag}", observed=got_rc, expected=rc, extra={"mapping": m})
            if got_lc != lc:
                raise Violation(f"eval.labeling_cost.{tag}", observed=got_lc, expected=lc, extra={"mapping": m, "labelling": lab})
            if got_tot != rc + lc:
                raise Violation(f"eval.cost.{tag}", observed=got_tot, expected=rc + lc, extra={"mapping": m, "labelling": lab})
    # history: one output object per kind whose species mapping is updated in place through a sequence of valid
    # mappings (a caller walking through mappings with one dictionary): every evaluation reads the current content
    if len(mappings) >= 2:
        walk = mappings if len(mappings) <= 24 else [mappings[int(i * len(mappings) / 24)] for i in range(24)]
        cur = {onode[k]: snode[v] for k, v in walk[0].items()}
        held = [(None, pkg.guarded(ReconciliationOutput, inp, cur), None)]
        for ordered, syn, lab in ((True, syn_o, lab_o), (False, syn_u, lab_u)):
            held.append((ordered, pkg.guarded(SuperReconciliationOutput, input=inp, object_species=cur, syntenies=syn, ordered=ordered), lab))
        for step, m in enumerate(walk):
            for obj_kind, obj, _lab in held:
                obj.object_species.update({onode[k]: snode[v] for k, v in m.items()})
            pat, counts = inst.rec_profile(m)
            rc = inst.profile_cost(counts)
            for ordered, obj, lab in held:
                kind = "plain" if ordered is None else ("ordered" if ordered else "unordered")
                for n in inst.onodes:
                    got = pkg.EVENT_KIND[pkg.guarded(obj.node_event, onode[n])]
                    if got != _event_name(inst, m, n):
                        raise Violation("eval.node_event.after-mapping-updated-in-place", observed=got, expected=_event_name(inst, m, n),
                                        extra={"node": n, "kind": kind, "step": step, "mapping": m, "previous": walk[step - 1] if step else None})
                exp = rc if ordered is None else rc + times(inst.c["SEGMENTAL_LOSS"], labeling_losses(inst, pat, lab, ordered))
                got = pkg.guarded(obj.cost)
                if got != exp:
                    raise Violation("eval.cost.after-mapping-updated-in-place", observed=got, expected=exp,
                                    extra={"kind": kind, "step": step, "mapping": m, "previous": walk[step - 1] if step else None})
    # the same output objects evaluated again after the input's unit costs were changed in place
    if mappings:
        m = mappings[-1]
        mo = {onode[k]: snode[v] for k, v in m.items()}
        pat, counts = inst.rec_profile(m)
        objs = [(None, pkg.guarded(ReconciliationOutput, inp, mo), None)]
        for ordered, syn, lab in ((True, syn_o, lab_o), (False, syn_u, lab_u)):
            objs.append((ordered, pkg.guarded(SuperReconciliationOutput, input=inp, object_species=mo, syntenies=syn, ordered=ordered), lab))
        first = [pkg.guarded(o.cost) for _k, o, _l in objs]
        c2 = {k: (v if v == INF else v + i + 1) for i, (k, v) in enumerate(sorted(inst.c.items()))}
        from superrec2.model.reconciliation import EdgeEvent, NodeEvent
        for key, value in c2.items():
            inp.costs[getattr(NodeEvent, key) if hasattr(NodeEvent, key) else getattr(EdgeEvent, key)] = value
        for (ordered, obj, lab), before in zip(objs, first):
            exp = inst.profile_cost(counts, c2)
            if ordered is not None:
                exp = exp + times(c2["SEGMENTAL_LOSS"], labeling_losses(inst, pat, lab, ordered))
            got = pkg.guarded(obj.cost)
            if got != exp:
                raise Violation("eval.cost.after-costs-changed-in-place", observed=got, expected=exp,
                                extra={"kind": "plain" if ordered is None else ("ordered" if ordered else "unordered"),
                                       "first_costs": inst.c, "second_costs": c2, "first_result": str(before), "mapping": m})
        for key, value in inst.c.items():
            inp.costs[getattr(NodeEvent, key) if hasattr(NodeEvent, key) else getattr(EdgeEvent, key)] = value
    labels = [f"obj={len(inst.oleaves)}", f"mappings={'<=10' if len(mappings) <= 10 else '<=100' if len(mappings) <= 100 else '>100'}"]
    if inst.c["HORIZONTAL_TRANSFER"] == INF:
        labels.append("hgt=inf")
    if charged:
        labels.append("segmental_loss_charged")
    evals = 3 * len(mappings)
    # command-line clause on a deterministic sample of the cases
    if int(case_hash(case), 16) % 8 == 0:
        labels.append("cli")
        evals += _cli_clause(case)
    nontrivial = len(inst.oleaves) >= 3 and kinds_max >= 2 and charged
    return Result(nontrivial, labels, evals=evals)


def _cli_clause(case):
    """Printed 'Minimum cost' == independent recount of every written solution."""
    import json

    n = 0
    base = {k: v for k, v in case.items() if not k.startswith("_")}
    # unit costs are arbitrary non-negative numbers: every other case is priced with the vector scaled by a large odd
    # factor, so that the printed total needs seven and more significant digits
    if int(case_hash(case), 16) % 2 == 0:
        base["costs"] = {k: (v if v == INF else v * 1234567) for k, v in base["costs"].items()}
    for algo, mode in (("thl", "plain"), ("lca", "plain"), ("ext_spfs", "ordered"), ("superdtl", "unordered")):
        for policy in ("any", "all"):
            status, lines, printed, err, _raw = stubs.cli_reconcile(base, algo, policy, omit_default_flags=(policy == "any"), decoy_file_costs=(algo != "thl"))
            if status != 0 or not lines:
                raise Violation(f"cli.{algo}.status", observed={"status": status, "lines": len(lines), "stderr": err[-300:]},
                                expected="status 0 and >=1 solution")
            for line in lines[:50]:
                data = json.loads(line)
                # recounted under the cost options the tool was given, whatever the written object says about costs
                ocase = dict(data["input"], costs=base["costs"])
                inst = Instance(ocase)
                m = data["object_species"]
                lab = data.get("syntenies") if mode != "plain" else None
                why = inst.mapping_valid(m)
                if why:
                    raise Violation(f"cli.{algo}.invalid-solution", observed=m, expected=why)
                _rc, _lc, tot = total_cost(inst, m, lab, ordered=(mode == "ordered"))
                n += 1
                if printed != tot:
                    raise Violation(f"cli.{algo}.minimum-cost", observed=printed, expected=tot, extra={"solution": data})
    return n
