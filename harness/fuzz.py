"""Coverage-guided campaign: atheris (libFuzzer) drives the same Hypothesis
strategy objects and single-case checker as the random tier, decoded from the
fuzzer's bytes by harness/fdp.py, with coverage feedback from the
instrumented package.

    python -m harness.fuzz <ID> <result.json> [libFuzzer options...]

The oracle lives inside the target (the property's check()).  A Violation is
recorded (case + clause) in <result.json> and stops the campaign; a time-out is
inconclusive, never a violation.
"""
import json
import os
import sys
import time


def main():
    prop_id, result_path = sys.argv[1], sys.argv[2]
    fuzz_args = sys.argv[3:]
    import atheris

    with atheris.instrument_imports(include=["superrec2"]):
        import superrec2.compute.exhaustive  # noqa: F401
        import superrec2.compute.reconciliation  # noqa: F401
        import superrec2.compute.super_reconciliation  # noqa: F401
        import superrec2.compute.unordered_super_reconciliation  # noqa: F401
        import superrec2.model.reconciliation  # noqa: F401
        import superrec2.utils.dynamic_programming  # noqa: F401
        import superrec2.utils.subsequences  # noqa: F401
        import superrec2.utils.toposort  # noqa: F401
        import superrec2.utils.trees  # noqa: F401

    from . import runner
    from .fdp import FdpDraw, Reject

    mod = runner.load(prop_id)
    strategy = mod.strategy("thorough")
    state = {"execs": 0, "valid": 0, "nontrivial": set(), "fail": None, "skipped": 0, "classes": {}, "samples": []}

    def test(data):
        fdp = atheris.FuzzedDataProvider(data)
        try:
            case = FdpDraw(fdp).draw(strategy)
        except Reject:
            return
        state["valid"] += 1
        try:
            res = runner.run_check(mod, case)
        except runner.Skip:
            state["skipped"] += 1
            return
        except runner.Violation as v:
            state["fail"] = {"case": case, "clause": v.clause, "observed": v.observed, "expected": v.expected, "extra": v.extra}
            dump()
            raise
        if res.nontrivial:
            h = runner.case_hash(case)
            if h not in state["nontrivial"] and len(state["samples"]) < 2:
                state["samples"].append(case)
            state["nontrivial"].add(h)
        for lab in res.labels:
            state["classes"][lab] = state["classes"].get(lab, 0) + 1

    def dump():
        out = {
            "execs": state["execs"], "valid_cases": state["valid"], "skipped": state["skipped"],
            "distinct_nontrivial": len(state["nontrivial"]), "fail": state["fail"], "classes": state["classes"],
            "samples": state["samples"], "wall_s": round(time.time() - t0, 1),
        }
        with open(result_path, "w") as fh:
            fh.write(runner.jdump(out))

    fuzz = test
    t0 = time.time()

    def target(data):
        state["execs"] += 1
        if state["execs"] % 200 == 0:
            dump()
        fuzz(data)

    import atexit  # noqa: F401  (atexit does not run under libFuzzer: results are dumped periodically)

    dump()
    atheris.Setup([sys.argv[0]] + fuzz_args, target)
    try:
        atheris.Fuzz()
    finally:
        dump()


if __name__ == "__main__":
    main()
