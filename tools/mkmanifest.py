#!/usr/bin/env python3
"""Regenerates MANIFEST.json from harness/props/*.py metadata (run from /verif)."""
import importlib, json, os, sys, glob
sys.path.insert(0, os.path.dirname(os.path.dirname(os.path.abspath(__file__))))
os.environ.setdefault("TQDM_DISABLE", "1")
props = [json.loads(l) for l in open("properties.jsonl")]
checks = []
na = []
BASE = json.load(open("/root/.vp/BASELINE.json"))["cmd"] if os.path.exists("/root/.vp/BASELINE.json") else None
for p in props:
    pid = p["id"]
    path = f"harness/props/{pid.lower()}.py"
    if not os.path.exists(path):
        na.append({"property_id": pid, "reason": "check not built yet in this round (planned; see DESIGN.md)"})
        continue
    src = open(path).read()
    ns = {}
    # metadata only: parse the literal assignments without importing superrec2
    import ast
    tree = ast.parse(src)
    meta = {}
    for node in tree.body:
        if isinstance(node, ast.Assign) and len(node.targets) == 1 and isinstance(node.targets[0], ast.Name):
            name = node.targets[0].id
            if name in ("LEVEL", "LEVEL_TEXT", "LEVEL_NOTE", "TECHNIQUE", "DESIGN_REF"):
                meta[name] = ast.literal_eval(node.value)
    checks.append({
        "property_id": pid,
        "quick_cmd": f"./vcheck {pid} --tier quick",
        "thorough_cmd": f"./vcheck {pid} --tier thorough",
        "evidence_file": f"evidence/{pid}.json",
        "replay_cmd_template": f"./vcheck {pid} --replay {{path}}",
        "engine": "harness",
        "level_claimed": {
            "category": meta.get("LEVEL", "exploration"),
            "text": meta["LEVEL_TEXT"],
            "design_ref": meta.get("DESIGN_REF", "DESIGN.md"),
        },
        "level_note": meta["LEVEL_NOTE"],
        "technique": meta["TECHNIQUE"],
    })
manifest = {
    "version": 1,
    "setup_cmd": "./setup.sh",
    "hooks": {
        "guard": "SUPERREC2_VERIF",
        "enable": "no source hooks are needed: the harness replaces superrec2.utils.tex.measure from its own process (DESIGN.md 2.4)",
        "baseline_off_cmd": "cd /repo && /venv/bin/python -m pytest -ra -q -p no:cacheprovider --timeout=900 --continue-on-collection-errors",
        "source_commits": [],
        "add_only": True,
    },
    "engines": [
        {"name": "harness", "path": "harness/", "serves_properties": [c["property_id"] for c in checks],
         "kind_free_text": "Hypothesis 6.168 property tests (16 seeded shards, shrinking) + bounded-exhaustive enumerators on a process pool, brute-force reference oracles independent of the package"},
    ],
    "checks": checks,
    "notes": "All checks: ./vcheck <ID> --tier quick|thorough; VERIF_SEED selects the Hypothesis seeds; exit 0 held / 1 VIOLATION / 2 harness error or inconclusive. Known findings and fixed defects: known_findings.json. Fixes to the repository: nine 'fix:' commits (F1-F9, DESIGN.md section 9).",
    "not_applicable": na,
}
json.dump(manifest, open("MANIFEST.json", "w"), indent=1)
print("checks:", len(checks), "not_applicable:", len(na))
