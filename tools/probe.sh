#!/bin/bash
# tools/probe.sh <seeded-name> [seeds...]   detection of one seeded change by its target check under several VERIF_SEED values
cd "$(dirname "$0")/.." || exit 2
name=$1; shift
for s in ${*:-1 2 3}; do
  printf "seed=%s " $s; VERIF_SEED=$s python3 tools/seeded.py run $name 2>&1 | tail -1 | cut -c1-110
done
