"""C19 - topological orderings are enumerated completely and without repetition."""
import itertools

from hypothesis import strategies as st

from ..runner import Result, Violation

ID = "C19"
LEVEL = "exploration"
LEVEL_TEXT = (
    "Exhaustive over all directed graphs (self-loops included) on up to 4 vertices (2^16 graphs on 4) against permutation filtering: the "
    "all-orderings routine must return exactly the valid orderings, each once, and the single-ordering routine a valid ordering iff one exists; "
    "plus random digraphs up to 7 vertices and the composition used by the ordered solver (precedence graph of leaf syntenies -> all orderings == "
    "all permutations having every leaf as a subsequence)."
)
LEVEL_NOTE = "Trusted: filtering itertools.permutations by the edge relation. Every vertex is a key of the graph mapping (as built by the only caller)."
TECHNIQUE = "exhaustive enumeration of small digraphs + Hypothesis random digraphs vs permutation filtering"
DESIGN_REF = "DESIGN.md section 7 (C19)"
RULE = (
    "Exhaustive: every digraph on 0..4 vertices given as {vertex: set(successors)} (all 2^(n*n) edge sets, self-loops included).  toposort_all as a "
    "multiset == set of permutations with every edge forward (empty if a cycle exists), no repeats; toposort returns a member iff the set is "
    "non-empty; input graph not modified.  Random: digraphs with 5..7 vertices (edge density drawn), string/int vertices; and random leaf "
    "syntenies (<=5 families, <=5 leaves): _make_prec_graph + toposort_all == all permutations having every leaf list as a subsequence.  "
    "Both tiers enumerate the <=4-vertex space completely.  Non-trivial: >=2 orderings, or a cycle that does not pass through every vertex; "
    "distinct by SHA-1 of the graph."
    '  Graphs are built with a permuted vertex insertion order, successors as sets or lists, labels ints, fixed-width strings or strings whose concatenations collide.'
)
ASSUMPTIONS = ["every vertex is a key of the mapping"]
BUDGET = {"quick": {"random": 1500}, "thorough": {"random": 40000}}
EXHAUSTIVE_RULE = {"quick": "all digraphs on <=4 vertices (1 + 2 + 16 + 512 + 65536)", "thorough": "same"}
EXHAUSTIVE_COMPLETE = False


def exhaustive(tier):
    return [(i, 32) for i in range(32)]


def run_job(job):
    idx, mod = job
    k = 0
    for n in range(0, 5):
        pairs = [(a, b) for a in range(n) for b in range(n)]
        for bits in range(1 << len(pairs)):
            k += 1
            if k % mod == idx:
                yield {"kind": "graph", "n": n, "edges": [list(pairs[i]) for i in range(len(pairs)) if bits >> i & 1]}


@st.composite
def _random(draw):
    if draw(st.sampled_from([True, True, False])):
        n = draw(st.integers(5, 7))
        density = draw(st.sampled_from([1, 2, 3, 5, 8]))
        edges = []
        for a in range(n):
            for b in range(n):
                if draw(st.integers(0, 19)) < density and (a != b or draw(st.integers(0, 9)) == 0):
                    edges.append([a, b])
        if draw(st.booleans()):
            # acyclic by construction: orient along a drawn permutation
            perm = draw(st.permutations(list(range(n))))
            pos = {v: i for i, v in enumerate(perm)}
            edges = [[a, b] if pos[a] < pos[b] else [b, a] for a, b in edges if a != b]
        return {"kind": "graph", "n": n, "edges": edges, "names": draw(st.sampled_from([True, False, "colliding", "odd", "negative"])), "insertion": list(draw(st.permutations(list(range(n))))),
                "lists": draw(st.booleans())}
    nf = draw(st.integers(1, 5))
    fams = [f"g{i}" for i in range(nf)]
    order = draw(st.permutations(fams))
    consistent = draw(st.booleans())
    leaves = []
    for _ in range(draw(st.integers(1, 5))):
        mask = draw(st.integers(1, 2**nf - 1))
        sub = [f for i, f in enumerate(order) if mask >> i & 1]
        if not consistent:
            sub = list(draw(st.permutations(sub)))
        leaves.append(sub)
    return {"kind": "prec", "leaves": leaves}


def strategy(tier):
    return _random()


def _is_subseq(child, parent):
    it = iter(parent)
    return all(any(x == y for y in it) for x in child)


def check(case):
    from superrec2.utils.toposort import toposort, toposort_all

    if case["kind"] == "prec":
        from superrec2.compute.super_reconciliation import _make_prec_graph

        leaves = case["leaves"]
        fams = sorted({f for s in leaves for f in s})
        graph = _make_prec_graph({i: s for i, s in enumerate(leaves)})
        got = toposort_all(graph)
        exp = [list(p) for p in itertools.permutations(fams) if all(_is_subseq(s, p) for s in leaves)]
        if sorted(got) != sorted(exp):
            raise Violation("prec_graph.orderings", observed=sorted(got)[:3], expected=sorted(exp)[:3], extra={"n_got": len(got), "n_exp": len(exp)})
        return Result(len(exp) != 1 and len(fams) >= 2, ["prec", "no_order" if not exp else "orders>=1"], evals=1)
    n = case["n"]
    pool = ["a", "b", "ab", "ba", "aa", "abb", "bab"]
    odd = [-1, None, 0, -2, 2, -3, 1]  # any hashable is a vertex: negative integers next to small ones, None
    name = (lambda v: f"v{v}") if case.get("names") is True else ((lambda v: pool[v % 7]) if case.get("names") == "colliding" and n <= 7 else (
        (lambda v: odd[v % 7]) if case.get("names") == "odd" and n <= 7 else (
            (lambda v: [-1, n - 1, 0, -2, n - 2, 1, 2][v % 7]) if case.get("names") == "negative" and 3 <= n <= 7 else (lambda v: v))))
    # a graph is a dictionary: the order in which its vertices were inserted is presentation, not content (the
    # insertion order is a permutation derived from the case; successors are given as sets or, when `lists`, as lists)
    order = list(range(n))
    if case.get("insertion"):
        order = [v for v in case["insertion"] if v < n] + [v for v in range(n) if v not in case["insertion"]]
    elif n >= 2:
        k = (len(case["edges"]) * 7 + n) % n
        order = order[k:][::-1] + order[:k]
    graph = {name(v): set() for v in order}
    for a, b in case["edges"]:
        graph[name(a)].add(name(b))
    if case.get("lists"):
        graph = {k: sorted(v, key=str, reverse=True) for k, v in graph.items()}
    snapshot = {k: (list(v) if isinstance(v, list) else set(v)) for k, v in graph.items()}
    verts = list(graph)
    if any(a in graph[a] for a in graph):
        exp = []
    else:
        exp = [list(p) for p in itertools.permutations(verts) if all(p.index(a) < p.index(b) for a in graph for b in graph[a])]
    got = toposort_all(graph)
    one = toposort(graph)
    if graph != snapshot:
        raise Violation("toposort.input-modified", observed="changed", expected="unchanged")
    key = lambda o: [str(x) for x in o]  # noqa: E731
    if sorted(got, key=key) != sorted(exp, key=key):
        if len(got) != len({tuple(o) for o in got}):
            raise Violation("toposort_all.duplicate", observed=len(got), expected=len(exp))
        raise Violation("toposort_all.set", observed=sorted(got, key=key)[:3], expected=sorted(exp, key=key)[:3],
                        extra={"n_got": len(got), "n_exp": len(exp)})
    if (one is None) != (not exp):
        raise Violation("toposort.existence", observed=one, expected="an ordering" if exp else None)
    if one is not None and one not in exp:
        raise Violation("toposort.invalid-ordering", observed=one, expected="a topological ordering")
    cyc_partial = not exp and n >= 2 and any(not graph[v] and all(v not in graph[u] for u in graph) for v in graph)
    labels = ["graph", f"n={n}", "cyclic" if not exp and n else "acyclic"]
    return Result(len(exp) >= 2 or cyc_partial, labels, evals=2)
