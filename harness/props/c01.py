"""C01 - general DTL reconciliation returns a minimum-cost reconciliation."""
from collections import Counter

from hypothesis import strategies as st

from .. import gen, pkg
from ..oracles import canon_solution, dtl_optimum, dtl_profiles
from ..plain import INF, Instance
from ..runner import Result, Violation
from ..solver_common import common_labels, leaf_move, reference, set_leaf_species_inplace, validate_output

ID = "C01"
LEVEL = "exploration"
LEVEL_TEXT = (
    "Bounded-exhaustive plus random search against a brute-force optimum: every plane shape/leaf assignment up to "
    "4x3 (quick) or 4x4 (thorough) leaves over a cost grid, and thousands of Hypothesis cases up to 5 object / 6 species "
    "leaves; finds any wrong optimum, invalid output, exception or enumeration error inside those bounds, says nothing beyond them."
)
LEVEL_NOTE = (
    "Trusted: the harness's own Newick parser, parent-chain ancestry and event model (harness/plain.py), the mapping enumerator "
    "(harness/oracles.py), Hypothesis, CPython. Costs restricted to spe <= dup + 2*floss (F-COHERENCE outside, witnesses replayed)."
)
TECHNIQUE = "property-based testing: bounded-exhaustive + Hypothesis random inputs vs brute-force DTL oracle"
DESIGN_REF = "DESIGN.md section 5 (C01), sections 3-4"
RULE = (
    "Cases: binary object tree (<=5 leaves) x binary species tree (<=6 leaves, species "
    "without objects and single-node trees included) x leaf assignment x cost vector with "
    "spe <= dup + 2*floss; bounded-exhaustive over all plane shapes/assignments at small "
    "size x a cost grid, plus Hypothesis-random cases at full size.  Oracle: enumeration of "
    "every valid species mapping on parent chains, recount by the documented event model. "
    "Checked for reconcile_thl and reconcile_exhaustive (policies ALL and ANY): no exception, "
    "non-empty result, every output valid, package cost == independent recount == brute-force "
    "minimum, also when the same input object is solved again after its costs were changed in place and after one of its leaves was moved to another species in place; generate_all == set of valid mappings, each exactly once, and the package cost of (up to 300 evenly spaced of) them == recount.  Non-trivial: object "
    "tree >= 3 leaves, species tree >= 2 leaves and some optimal reconciliation contains a "
    "duplication, transfer or loss; distinct by SHA-1 of the canonical JSON case."
    '  Random layer classes: a tenth of the cases 6..10 object / 3..8 species leaves and a third 3..6 objects on 7..9 species leaves (both decided by the memoised-recursion oracle, thl only); a quarter of the small cases with unnamed ancestors in both trees (read by clades); a third of the inputs name a third of their leaves after another species than their host; one cost vector in 12 has a unit cost of 10^6..10^12 or is scaled by such a factor.'
)
ASSUMPTIONS = [
    "cost vectors restricted to spe <= dup + 2*floss (outside: known finding F-COHERENCE, witnesses replayed only)",
    "brute-force oracle and evaluator in harness/plain.py, harness/oracles.py are correct (cross-checked by C06/C07 relations)",
    "internal nodes carry explicit unique names",
]
BUDGET = {
    "quick": {"random": 4000},
    "thorough": {"random": 60000},
}
FUZZ = {"thorough": {"runs": 40000, "max_time": 900}}
EXHAUSTIVE_RULE = {
    "quick": "all plane binary shapes, object<=4 x species<=3 leaves, all leaf assignments, costs {0,1,2}^3 (spe,dup,floss) x hgt {0,1,inf} inside the region",
    "thorough": "object<=4 x species<=4 leaves, costs {0..3}^3 x hgt {0,1,2,inf} inside the region",
}
EXHAUSTIVE_COMPLETE = False  # the random layer is not exhaustive


@st.composite
def _case(draw):
    if gen.chance(draw, 1, 10):
        # beyond brute force: 6..10 object leaves, 3..8 species leaves, decided by the memoised-recursion oracle
        # (cross-checked against plain enumeration on every small case of C02/C03/C05 and wherever it still fits here)
        case = draw(gen.rec_case(max_obj=10, max_sp=8, min_obj=6, min_sp=3, costs="coherent", labelled=False))
        case["_large"] = True
        return case
    if gen.chance(draw, 1, 4):
        # a duplicated clade: two sibling subtrees over the same leaf species with different shapes (6..9 leaves)
        case = draw(gen.duplicated_clade_case(costs="default" if gen.chance(draw, 1, 3) else "coherent"))
        case["_large"] = True
        case["_dupclade"] = True
        return case
    if gen.chance(draw, 1, 3):
        # few objects on many species (7..9 leaves, beyond the exhaustive layer): transfer recipients are chosen among
        # many candidate hosts; cheap (the recursion oracle and thl take milliseconds here)
        case = draw(gen.rec_case(max_obj=6, max_sp=9, min_obj=3, min_sp=7, costs="coherent", labelled=False))
        case["_large"] = True
        case["_wide"] = True
        return case
    case = draw(gen.rec_case(max_obj=5, max_sp=6, costs="coherent", labelled=False, misleading=True))
    # the ancestors of both trees may be unnamed (library path; results are then read by clades)
    case["_unnamed"] = gen.chance(draw, 1, 4)
    return case


def strategy(tier):
    return _case()


def check_large(case):
    inst = Instance(case)
    labels = common_labels(inst, labelled=False) + ["duplicated_clade" if case.get("_dupclade") else ("wide" if case.get("_wide") else "large")]
    opt, _ = reference(inst, "plain", want_set=False, labels=labels)
    inp = pkg.make_input(case, labelled=False)
    positive = all(inst.c[k] > 0 for k in ("DUPLICATION", "FULL_LOSS", "HORIZONTAL_TRANSFER"))
    for policy in ("ANY", "ALL") if positive else ("ANY",):
        outs = pkg.run_algo("thl", inp, policy)
        if not outs:
            raise Violation(f"thl.{policy}.empty", observed=0, expected=">=1 solution")
        for out in outs[:200]:
            _m, _lab, tot = validate_output(inst, out, "thl", policy)
            if tot != opt:
                raise Violation(f"thl.{policy}.cost!=oracle_min", observed=tot, expected=opt, extra={"mapping": _m, "size": "large"})
    return Result(True, labels, evals=2 if positive else 1)


def exhaustive(tier):
    if tier == "quick":
        return [("in", i, 32) for i in range(32)]
    return [("in", i, 64) for i in range(64)]


def run_job(job):
    _, idx, mod = job
    thorough = mod == 64
    mo, ms = (4, 4) if thorough else (4, 3)
    vals = (0, 1, 2, 3) if thorough else (0, 1, 2)
    hgts = (0, 1, 2, INF) if thorough else (0, 1, INF)
    grid = list(gen.cost_grid(vals, hgts, labelled=False))
    for k, base in enumerate(gen.all_inputs(mo, ms)):
        if k % mod != idx:
            continue
        for j, c in enumerate(grid):
            case = dict(base)
            case["costs"] = c
            # the changed-in-place step doubles the solver runs: one exhaustive case in eight takes it (all random cases do)
            case["_second"] = (k + j) % 8 == 0
            yield case


_profile_cache = {}


def profiles_for(inst, case):
    key = (case["object_tree"], case["species_tree"], tuple(sorted(case["leaf_object_species"].items())))
    if key not in _profile_cache:
        if len(_profile_cache) > 64:
            _profile_cache.clear()
        _profile_cache[key] = dtl_profiles(inst)
    return _profile_cache[key]


def second_costs(c):
    """Another cost vector inside the region, derived from the first (no random choice)."""
    hgt = c["HORIZONTAL_TRANSFER"]
    c2 = dict(c)
    c2["HORIZONTAL_TRANSFER"] = 1 if hgt == INF else (INF if hgt in (0, 1) else hgt - 1)
    c2["DUPLICATION"] = c["DUPLICATION"] + 1
    c2["FULL_LOSS"] = (c["FULL_LOSS"] + 1) % 3
    c2["SPECIATION"] = min(c["SPECIATION"], c2["DUPLICATION"] + 2 * c2["FULL_LOSS"])
    return c2


def _set_costs_inplace(inp, costs):
    from superrec2.model.reconciliation import EdgeEvent, NodeEvent

    for key, value in costs.items():
        event = getattr(NodeEvent, key) if hasattr(NodeEvent, key) else getattr(EdgeEvent, key)
        inp.costs[event] = value


def check(case):
    if case.get("_large"):
        return check_large(case)
    inst = Instance(case)
    profiles = profiles_for(inst, case)
    opt, sols, nvalid = dtl_optimum(inst, profiles)
    if opt is None:
        raise Violation("oracle.no-finite-solution", observed=None, expected="finite LCA solution")
    valid_set = Counter(canon_solution(m) for m, _p, _c in profiles)

    unnamed = bool(case.get("_unnamed"))
    inp = pkg.make_input(pkg.strip_ancestor_names(case), labelled=False, label=False) if unnamed else pkg.make_input(case, labelled=False)
    names_of = (lambda o: pkg.mapping_names_by_clade(o, inst)) if unnamed else pkg.mapping_names
    for algo in ("thl", "exh"):
        for policy in ("ALL", "ANY"):
            outs = pkg.run_algo(algo, inp, policy)
            if not outs:
                raise Violation(f"{algo}.{policy}.empty", observed=0, expected=">=1 solution")
            for out in outs:
                m = names_of(out)
                why = inst.mapping_valid(m)
                if why is not None:
                    raise Violation(f"{algo}.{policy}.V-MAP.{why.split(':')[0]}", observed=m, expected="valid reconciliation")
                recount = inst.rec_cost(m)
                pc = pkg.pkg_cost(out)
                if pc != recount:
                    raise Violation(f"{algo}.{policy}.cost!=recount", observed=pc, expected=recount, extra={"mapping": m})
                if recount != opt:
                    raise Violation(f"{algo}.{policy}.cost!=oracle_min", observed=recount, expected=opt, extra={"mapping": m})

    if unnamed:
        # unnamed ancestors: every generate_all output is valid and the multiset of mappings (read by clades) is the valid set
        gen_all = Counter(tuple(sorted(pkg.mapping_names_by_clade(o, inst).items())) for o in pkg.guarded(lambda: list(pkg.generate_all(inp))))
        if gen_all != valid_set:
            raise Violation("generate_all.unnamed.set", observed=sum(gen_all.values()), expected=sum(valid_set.values()))
        return Result(len(inst.oleaves) >= 3 and len(inst.snodes) >= 3, [f"obj={len(inst.oleaves)}", "unnamed_ancestors"], evals=5)
    # the same input object solved again after its unit costs were changed in place (the way the
    # package's own tests switch cost vectors): results must be optimal for the new costs
    c2 = second_costs(inst.c)
    opt2, _sols2, _n2 = dtl_optimum(inst, profiles, c=c2)
    _set_costs_inplace(inp, c2)
    for algo in ("thl", "exh") if case.get("_second", True) else ():
        for policy in ("ALL", "ANY"):
            for out in pkg.run_algo(algo, inp, policy):
                m = pkg.mapping_names(out)
                got = inst.rec_cost(m, c2) if inst.mapping_valid(m) is None else None
                if got != opt2 or pkg.pkg_cost(out) != opt2:
                    raise Violation(f"{algo}.{policy}.after-costs-changed-in-place", observed={"recount": got, "package": pkg.pkg_cost(out)},
                                    expected=opt2, extra={"first_costs": inst.c, "second_costs": c2})
    _set_costs_inplace(inp, inst.c)
    # ... and after one leaf was moved to another species in place (same tree objects, another leaf assignment)
    mv = leaf_move(case, inst) if case.get("_second", True) else None
    if mv is not None:
        leaf, target, moved = mv
        inst3 = Instance(moved)
        opt3, _s3, _n3 = dtl_optimum(inst3, dtl_profiles(inst3))
        set_leaf_species_inplace(inp, leaf, target)
        for algo in ("thl", "exh"):
            for policy in ("ALL", "ANY"):
                outs = pkg.run_algo(algo, inp, policy)
                if not outs:
                    raise Violation(f"{algo}.{policy}.after-leaf-moved-in-place.empty", observed=0, expected=">=1 solution")
                for out in outs:
                    m = pkg.mapping_names(out)
                    got = inst3.rec_cost(m) if inst3.mapping_valid(m) is None else None
                    if got != opt3 or pkg.pkg_cost(out) != opt3:
                        raise Violation(f"{algo}.{policy}.after-leaf-moved-in-place", observed={"recount": got, "package": pkg.pkg_cost(out), "mapping": m},
                                        expected=opt3, extra={"leaf": leaf, "moved_to": target})
        set_leaf_species_inplace(inp, leaf, inst.los[leaf])
    all_outputs = pkg.guarded(lambda: list(pkg.generate_all(inp)))
    gen_all = Counter(pkg.canon_output(o, labelled=False) for o in all_outputs)
    # the exhaustive solver ranks these with the package evaluator: recount an evenly spaced sample of them
    step = max(1, len(all_outputs) // 300)
    for o in all_outputs[::step]:
        mm = pkg.mapping_names(o)
        if inst.mapping_valid(mm) is None:
            pc, rc = pkg.pkg_cost(o), inst.rec_cost(mm)
            if pc != rc:
                raise Violation("generate_all.cost!=recount", observed=pc, expected=rc, extra={"mapping": mm})
    if gen_all != valid_set:
        dup = [k for k, v in gen_all.items() if v > 1]
        missing = [k for k in valid_set if k not in gen_all]
        extra = [k for k in gen_all if k not in valid_set]
        if dup:
            raise Violation("generate_all.duplicate", observed=dup[:2], expected="each valid reconciliation once")
        if missing:
            raise Violation("generate_all.missing", observed=len(gen_all), expected=missing[:2])
        raise Violation("generate_all.extra", observed=extra[:2], expected="only valid reconciliations")

    # classification
    labels = [f"obj={len(inst.oleaves)}", f"sp={sum(1 for s in inst.snodes if not inst.schildren[s])}"]
    used = set(inst.los.values())
    if any(not inst.schildren[s] and s not in used for s in inst.snodes):
        labels.append("empty_species")
    c = inst.c
    if c["SPECIATION"] > 0:
        labels.append("spe>0")
    if c["HORIZONTAL_TRANSFER"] == INF:
        labels.append("hgt=inf")
    if c["FULL_LOSS"] == 0:
        labels.append("floss=0")
    if c["SPECIATION"] == c["DUPLICATION"] + 2 * c["FULL_LOSS"]:
        labels.append("region_boundary")
    eventful = False
    for m in sols:
        _pat, counts = inst.rec_profile(m)
        if counts["T"]:
            labels.append("hgt_used") if "hgt_used" not in labels else None
        if counts["D"] or counts["T"] or counts["L"]:
            eventful = True
        for n in inst.ointernal_pre:
            for ch in inst.ochildren[n]:
                if inst.is_anc(m[n], m[ch]) and inst.dist(m[n], m[ch]) >= 2 and "deep_child" not in labels:
                    labels.append("deep_child")
    if len(sols) > 1:
        labels.append("tie")
    nontrivial = len(inst.oleaves) >= 3 and len(inst.snodes) >= 3 and eventful
    return Result(nontrivial, labels, evals=5)
