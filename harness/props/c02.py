"""C02 - ordered super-reconciliation returns a minimum-cost labelled reconciliation."""
from hypothesis import strategies as st

from .. import gen, pkg
from ..plain import INF, Instance, labeling_losses
from ..runner import Result, Violation
from ..solver_common import maybe_alt_families, common_labels, prescribed_root_of, reference, solution_features, validate_output

ID = "C02"
LEVEL = "exploration"
LEVEL_TEXT = (
    "Bounded-exhaustive (all inputs <=3x3 leaves, <=2-3 families, cost grid) plus random search (Hypothesis, 16 seeded shards) against an independent optimum over all species mappings x all compatible "
    "root orders x all synteny labellings (memoised recursion cross-checked by plain enumeration on every case that fits): "
    "finds wrong optima, invalid labellings, exceptions and non-empty results for inconsistent orders within <=5 object leaves, "
    "<=4 species leaves, <=4 families, costs <=3."
)
LEVEL_NOTE = (
    "Trusted: harness/plain.py event model and run counting on lists, harness/oracles.py (two oracle levels cross-checked per case), "
    "Hypothesis. Costs inside spe + 2*sloss <= dup + 2*floss (F-COHERENCE outside). Leaf syntenies non-empty, families distinct per leaf."
)
TECHNIQUE = "property-based testing: bounded-exhaustive + Hypothesis random inputs vs brute-force/recursive ordered super-reconciliation oracle"
DESIGN_REF = "DESIGN.md section 5 (C02), 4.3, 4.7"
RULE = (
    "Bounded-exhaustive layer (see exhaustive_layer) + Hypothesis cases: binary object tree (<=5 leaves; thorough <=7), species tree (<=4 leaves; thorough <=6), leaf assignment, <=4 families, each leaf a "
    "non-empty subset in a hidden global order (75%) or an arbitrary order (25%, possibly inconsistent), optional prescribed root "
    "order, coherent costs incl. sloss=0; in the quick tier one case in 20 has 5 families under few precedence constraints (30..120 root orders), one in 20 has 9..11 families on <=4 leaves with a prescribed root, one in 12 has 6..8 object leaves (policy ANY, recursion oracle).  Checked: sreconcile_extended_spfs (ALL, ANY) cost == optimum over all mappings x root "
    "orders x labellings; sreconcile_base_spfs == optimum with the LCA mapping; empty result iff no root order exists; every "
    "output valid (V-MAP, V-ORD) and package cost == recount.  Non-trivial: >=3 object leaves, >=2 families and the optimum "
    "involves a segmental loss, a non-LCA mapping or an inconsistent input; distinct by SHA-1 of the case."
)
ASSUMPTIONS = [
    "costs inside the coherent region spe + 2*sloss <= dup + 2*floss",
    "non-empty leaf syntenies without repeated families",
    "reference oracles of harness/oracles.py (brute force and recursion agree on every case where both run)",
]
BUDGET = {"quick": {"random": 5000}, "thorough": {"random": 60000}}
FUZZ = {"thorough": {"runs": 20000, "max_time": 900}}
EXHAUSTIVE_RULE = {
    "quick": "every plane binary object shape <=3 leaves x species shape <=3 leaves x leaf assignment x every assignment of a non-empty sequence of "
             "distinct families over <=2 families to each leaf (consistent and inconsistent orders alike; 8 310 inputs), each with 4 of the 141 cost "
             "vectors of {0,1,2}^4 x hgt {0,1,inf} inside the region (rotating residues: every vector meets 1/35 of the inputs)",
    "thorough": "the same inputs with all 141 cost vectors, plus object <=3 x species <=2 leaves x <=3 families (59 484 inputs) with 20 vectors each",
}
EXHAUSTIVE_COMPLETE = False  # the random layer is not exhaustive


@st.composite
def _with_large(draw, small):
    if gen.chance(draw, 1, 20):
        # five families under few precedence constraints: dozens of root orders to explore
        return draw(gen.many_orders_case())
    if gen.chance(draw, 1, 20):
        # 9..11 families (synteny masks wider than one byte) on few leaves, root order prescribed
        return draw(gen.many_families_case())
    if gen.chance(draw, 1, 12):
        # beyond plain enumeration: 6..8 object leaves, 3..6 species leaves, policy ANY, decided by the recursion oracle
        case = draw(gen.rec_case(max_obj=8, max_sp=6, min_obj=6, min_sp=3, costs="coherent", labelled=True, max_fam=4, prescribed_root=True))
        case["_large"] = True
        return case
    return draw(small)


def strategy(tier):
    if tier == "quick":
        return _with_large(gen.rec_case(max_obj=5, max_sp=4, costs="coherent", labelled=True, max_fam=4, prescribed_root=True))
    if tier == "thorough":
        # beyond plain enumeration's comfort zone: the recursion oracle decides, cross-checked where enumeration still fits
        return _with_large(gen.rec_case(max_obj=7, max_sp=6, costs="coherent", labelled=True, max_fam=4, prescribed_root=True))
    return gen.rec_case(max_obj=5, max_sp=4, costs="coherent", labelled=True, max_fam=4, prescribed_root=True)


def exhaustive(tier):
    if tier == "quick":
        return [("a", i, 32, 35) for i in range(32)]
    return [("a", i, 64, 1) for i in range(64)] + [("b", i, 64, 7) for i in range(64)]


def run_job(job):
    layer, idx, mod, stride = job
    grid = list(gen.cost_grid((0, 1, 2), (0, 1, INF), labelled=True))
    sizes = (3, 3, 2) if layer == "a" else (3, 2, 3)
    for k, base in enumerate(gen.all_labelled_inputs(*sizes, ordered=True)):
        if k % mod != idx:
            continue
        if layer == "b" and len({f for s in base["leaf_syntenies"].values() for f in s}) < 3:
            continue  # <=2 families on these shapes are part of layer a
        for j, c in enumerate(grid):
            if (k * 7 + j) % stride == 0:
                case = dict(base)
                case["costs"] = c
                yield case


def check(case):
    case = maybe_alt_families(case)
    inst = Instance(case)
    labels = common_labels(inst)
    proot = prescribed_root_of(inst)
    if proot is not None:
        labels.append("prescribed_root")
    large = bool(case.get("_large"))
    if not large and len(inst.oleaves) > 5 and (inst.c["SEGMENTAL_LOSS"] == 0 or (inst.c["FULL_LOSS"] == 0 and inst.c["HORIZONTAL_TRANSFER"] == 0)):
        # above 5 leaves (thorough tier) free labellings or free losses and transfers make the ALL sets explode (millions of
        # co-optimal solutions): those cases are decided on costs under policy ANY, like the large class
        large = True
        labels.append("ALL_skipped_free_costs")
    if large:
        labels.append("large")
    opt_ext, set_ext = reference(inst, "ordered", labels=labels, want_set=not large)
    opt_base, _ = reference(inst, "ordered", restrict_lca=True, want_set=False)
    inp = pkg.make_input(case, labelled=True)
    for algo, opt in (("ext_spfs", opt_ext), ("base_spfs", opt_base)):
        for policy in ("ANY",) if large else ("ALL", "ANY"):
            outs = pkg.run_algo(algo, inp, policy)
            if opt is None:
                if outs:
                    raise Violation(f"{algo}.{policy}.nonempty-without-solution", observed=len(outs), expected=0)
                continue
            if not outs:
                raise Violation(f"{algo}.{policy}.empty", observed=0, expected=f"solutions of cost {opt}")
            for out in outs:
                _m, _lab, tot = validate_output(inst, out, algo, policy, proot)
                if tot != opt:
                    raise Violation(f"{algo}.{policy}.cost!=oracle_min", observed=tot, expected=opt,
                                    extra={"mapping": _m, "labelling": _lab})
    feats, eventful = solution_features(inst, set_ext, "ordered")
    labels += feats
    seg = False
    for sol in set_ext or ():
        m = dict(sol[0]); lab = {k: list(v) for k, v in sol[1]}
        pat, _ = inst.rec_profile(m)
        if labeling_losses(inst, pat, lab, True):
            seg = True
            break
    if seg:
        labels.append("segmental_loss_in_optimum")
    if opt_ext is None:
        labels.append("inconsistent_no_solution")
    nfam = len({f for l in inst.oleaves for f in inst.lsyn[l]})
    nontrivial = len(inst.oleaves) >= 3 and nfam >= 2 and (seg or "non_lca_mapping" in feats or opt_ext is None)
    return Result(nontrivial, labels, evals=4)
