#!/usr/bin/env python3
"""Builds mutants/hand/*.diff from a table of single-site replacements applied to /repo HEAD
(in a scratch worktree).  Each entry: name, property ids expected to catch it, file, old, new."""
import os, subprocess, sys, tempfile, json
M = [
 ("m06a_spec_loss_minus1", ["C06"], "src/superrec2/model/reconciliation.py",
  "* (left_dist + right_dist - 2)", "* (left_dist + right_dist - 1)"),
 ("m06b_unordered_strict_subset", ["C06"], "src/superrec2/model/reconciliation.py",
  "0 if node_set <= set(self.syntenies[left_node]) else sloss_cost", "0 if node_set < set(self.syntenies[left_node]) else sloss_cost"),
 ("m06c_dup_label_max", ["C06"], "src/superrec2/model/reconciliation.py",
  "                        min(\n                            subseq_segment_dist(left_mask, sub_mask, True)", "                        max(\n                            subseq_segment_dist(left_mask, sub_mask, True)"),
 ("m06d_keep_left_negated", ["C06"], "src/superrec2/model/reconciliation.py",
  "subseq_segment_dist(left_mask, sub_mask, keep_left)\n                        + subseq_segment_dist(right_mask, sub_mask, not keep_left)",
  "subseq_segment_dist(left_mask, sub_mask, not keep_left)\n                        + subseq_segment_dist(right_mask, sub_mask, keep_left)"),
 ("m01a_genall_transfer_strict", ["C01"], "src/superrec2/compute/exhaustive.py",
  "if species_lca.is_ancestor_of(other_target, transfer_target):", "if species_lca.is_strict_ancestor_of(other_target, transfer_target):"),
 ("m01b_genall_no_climb", ["C01"], "src/superrec2/compute/exhaustive.py",
  "            parent_species = parent_species.up\n", "            parent_species = None\n"),
 ("m01c_thl_swap_hgt", ["C01","C05"], "src/superrec2/compute/reconciliation.py",
  "        *min_lts.combine(min_rtc, hgt_r_combinator),\n        *min_ltc.combine(min_rts, hgt_l_combinator),", "        *min_lts.combine(min_rtc, hgt_r_combinator),"),
 ("m02a_conserved_no_edges", ["C02","C05"], "src/superrec2/compute/super_reconciliation.py",
  "                    edges=True,\n                )\n\n                if conserv_segments < 0:", "                    edges=False,\n                )\n\n                if conserv_segments < 0:"),
 ("m02b_drop_separate", ["C02","C10"], "src/superrec2/compute/super_reconciliation.py",
  "        *subprobs[0].separate.combine(subprobs[1].conserved, hgt_comb),\n", ""),
 ("m02c_skip_one_ordering", ["C02","C05"], "src/superrec2/compute/super_reconciliation.py",
  "            root_orderings = toposort_all(prec_graph)\n", "            root_orderings = toposort_all(prec_graph)[:1]\n"),
 ("m03a_lca_inh_zero", ["C03","C05"], "src/superrec2/compute/unordered_super_reconciliation.py",
  "            lca_inh_dist = inf\n", "            lca_inh_dist = 0\n"),
 ("m03b_no_gain_difference", ["C03","C04"], "src/superrec2/compute/unordered_super_reconciliation.py",
  "                .difference(*(gain_sets[child] for child in object_node.children))\n", ""),
 ("m05a_all_keeps_first_only", ["C05","C16"], "src/superrec2/utils/dynamic_programming.py",
  "                if info and (is_all or (is_any and not self._infos)):", "                if info and ((is_all or is_any) and not self._infos):"),
 ("m07a_lca_left_only", ["C07","C10"], "src/superrec2/compute/reconciliation.py",
  "            rec[node] = rec_input.species_lca(rec[left], rec[right])", "            rec[node] = rec_input.species_lca(rec[left], rec[right]).up or rec_input.species_lca(rec[left], rec[right])"),
 ("m08a_arrange_skip_leaf", ["C08"], "src/superrec2/utils/trees.py",
  "            ignore=set(leaf.get_topology_id() for leaf in leaves[1:]),", "            ignore=None,"),
 ("m08b_no_feature_copy", ["C08","C04"], "src/superrec2/utils/trees.py",
  "            for key in node.features:\n                for subtree in subtrees[node]:\n                    subtree.add_feature(key, getattr(node, key))", "            pass"),
 ("m11a_drop_color_feature", ["C11"], "src/superrec2/model/reconciliation.py",
  "            \"species_tree\": self.species_lca.tree.write(\n                format=8,\n                format_root_node=True,\n                features=[\"color\"],", "            \"species_tree\": self.species_lca.tree.write(\n                format=8,\n                format_root_node=True,\n                features=[],"),
 ("m11b_ordered_default_const", ["C11"], "src/superrec2/model/reconciliation.py",
  "\"ordered\": data.get(\"ordered\", True),", "\"ordered\": True,"),
 ("m13a_loss_off_by_one", ["C13"], "src/superrec2/render/layout.py",
  "                        root_species.up,\n                    )\n\n                    state[\"anchor_nodes\"].add(root_gene)\n                    state[\"anchor_nodes\"].remove(conserv_gene)", "                        root_species,\n                    )\n\n                    state[\"anchor_nodes\"].add(root_gene)\n                    state[\"anchor_nodes\"].discard(conserv_gene)"),
 ("m14a_min_spacing_ignored", ["C14"], "src/superrec2/render/layout.py",
  "                subtree_spacing = max(\n                    trunk_width - (left_trunk_dist + right_trunk_dist),\n                    params.min_subtree_spacing,\n                )", "                subtree_spacing = trunk_width - (left_trunk_dist + right_trunk_dist)"),
 ("m14b_swap_wh_horizontal", ["C14"], "src/superrec2/render/layout.py",
  "                    next_pos_across -= size.h\n                    pos = Position(-size.w, next_pos_across)", "                    next_pos_across -= size.w\n                    pos = Position(-size.w, next_pos_across)"),
 ("m15a_no_underscore_escape", ["C15"], "src/superrec2/utils/tex.py",
  "return text.replace(\"\\\\\", \"\\\\\\\\\").replace(r\"_\", r\"\\_\")", "return text.replace(\"\\\\\", \"\\\\\\\\\")"),
 ("m15b_label_omitted_if_equal_root", ["C15"], "src/superrec2/render/layout.py",
  "name = synteny if not equal_to_parent else \"\"", "name = synteny if not (equal_to_parent or root_gene.up is None) else \"\""),
 ("m16a_any_keeps_adding", ["C16","C05"], "src/superrec2/utils/dynamic_programming.py",
  "if info and (is_all or (is_any and not self._infos)):", "if info and (is_all or is_any):"),
 ("m16b_combine_uses_first", ["C16"], "src/superrec2/utils/dynamic_programming.py",
  "        for ours, theirs in product(self._infos, other.infos()):", "        for ours, theirs in zip(self._infos, other.infos()):"),
 ("m17a_level_of_lca_wrong", ["C17"], "src/superrec2/utils/trees.py",
  "self.level(first) + self.level(second) - 2 * self.level(self(first, second))", "self.level(first) + self.level(second) - 2 * self.level(self(first))"),
 ("m17b_rmq_offbyone", ["C17"], "src/superrec2/utils/range_min_query.py",
  "            self.sparse_table[depth][stop - 2**depth],", "            self.sparse_table[depth][max(start, stop - 2**depth - 1)],"),
 ("m18a_edges_final", ["C18"], "src/superrec2/utils/subsequences.py",
  "    if in_segm and not edges:\n        dist -= 1", "    if in_segm and not edges and dist > 1:\n        dist -= 1"),
 ("m19a_toposort_no_restore", ["C19"], "src/superrec2/utils/toposort.py",
  "        for node_to in graph[node_from]:\n            indeg[node_to] += 1", "        for node_to in list(graph[node_from])[1:]:\n            indeg[node_to] += 1"),
 ("m20a_binary_drop", ["C20"], "src/superrec2/utils/disjoint_set.py",
  "            elif second is None or groups[0] < second:", "            elif second is None or groups[0] <= second + 1:"),
]
def main():
    out = os.path.join(os.path.dirname(os.path.dirname(os.path.abspath(__file__))), "mutants", "hand")
    os.makedirs(out, exist_ok=True)
    w = tempfile.mkdtemp(prefix="mkmut.")
    subprocess.check_call(["git", "-C", "/repo", "worktree", "add", "-q", "--detach", w + "/r", "HEAD"])
    index = {}
    try:
        for name, props, path, old, new in M:
            full = os.path.join(w, "r", path)
            src = open(full).read()
            if src.count(old) != 1:
                print("SKIP", name, "occurrences:", src.count(old)); continue
            open(full, "w").write(src.replace(old, new))
            diff = subprocess.check_output(["git", "-C", w + "/r", "diff"]).decode()
            open(os.path.join(out, name + ".diff"), "w").write(diff)
            subprocess.check_call(["git", "-C", w + "/r", "checkout", "-q", "--", "."])
            index[name] = props
    finally:
        subprocess.call(["git", "-C", "/repo", "worktree", "remove", "--force", w + "/r"])
    json.dump(index, open(os.path.join(out, "index.json"), "w"), indent=1)
    print("built", len(index))
main()
