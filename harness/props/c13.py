"""C13 - a diagram shows exactly the events the cost model counts."""
from collections import Counter

from .. import render_common as rc
from ..plain import Instance
from ..runner import Result, Violation, case_hash
from ..tikzcheck import Picture, TikzError

ID = "C13"
LEVEL = "exploration"
LEVEL_TEXT = (
    "All valid reconciliations of every small input (<=4 x <=3 leaves, independent enumerator) drawn in sequence from shared tree objects, plus random search over valid (super-)reconciliations that are not solver outputs (constructed mappings on inputs up to 10 object leaves / 6 species, "
    "with and without labels, both orientations, node sizes 1-100 from a stub TeX measurer, perturbed drawing parameters): the computed layout and the "
    "generated TikZ are compared with the independent event model - one event node per object node in its mapped species and of the evaluator's kind, "
    "one loss marker per counted full loss in the species where it occurs, one transfer arrow per transfer ending at the transferred child."
)
LEVEL_NOTE = (
    "Trusted: event model and loss-location rule of harness/plain.py, the TikZ line parser. 'Placed in the species' is judged on the layout (membership "
    "in that species' branch table is what the renderer draws inside the species' outline) and geometrically for the TikZ statements (positions inside "
    "a branch box of the same kind; loss markers on the trunk edge of a species holding a loss). TeX itself is replaced by a stub."
)
TECHNIQUE = "property-based testing: bounded-exhaustive walk over all valid mappings of small inputs + Hypothesis random valid reconciliations, layout and TikZ output vs independent event/loss model"
DESIGN_REF = "DESIGN.md section 6 (C13)"
EXHAUSTIVE_RULE = {
    "quick": "every plane binary input with <=3 object x <=3 species leaves and a quarter of those with 4 object leaves: ALL valid species mappings "
             "(independent enumerator), drawn one after the other from the same tree objects, both orientations, unlabelled",
    "thorough": "every input <=4 x <=3 leaves and an eighth of 4 x 4, ALL valid mappings each",
}
EXHAUSTIVE_COMPLETE = False  # the random layer is not exhaustive
RULE = (
    "Walk layer (see exhaustive_layer): all valid mappings of small inputs drawn in sequence from shared tree objects.  Hypothesis cases: binary input with <=10 object / <=6 species leaves, a constructed valid species mapping (any valid event per node), optional "
    "ordered or unordered labelling, 24 drawn node sizes in [1,100] used by call position, about half of the numeric DrawParams fields perturbed in "
    "(0,50], colours on some nodes, ancestral node names of both trees blanked in about a third of the cases; both orientations per case.  Layout: each object node has exactly one non-loss branch, held by the layout of its "
    "mapped species, of the evaluator's kind; the multiset of species holding loss branches == species of the skipped edges by the independent rule; a "
    "loss branch has exactly one of left/right.  TikZ: statement counts per kind (extant, speciation, duplication, transfer, loss, transfer arrow) == "
    "model counts; every event node position lies in a layout box of the same kind; loss markers match loss branches one-to-one on the trunk edge of "
    "their species; the multiset of arrow end points == anchors of the transferred children in their own species.  Non-trivial: >=1 full loss and "
    ">=2 event kinds; distinct by SHA-1 of the case."
    '  Also: one drawing in six with integer sizes, measured boxes split into height above and depth below the baseline, unordered syntenies as sets in half of the drawings, up to 10 families, a third of the labelled drawings with leaf names without underscore, a third of the cases drawn after another mapping of the same input and the other orientation (history); one random case in six is written to a file (Newick with branch lengths) and drawn with `superrec2 draw ... tikz` in both orientations.'
)
ASSUMPTIONS = ["valid reconciliations only", "object leaf names contain an underscore when no labelling is drawn (renderer's documented naming convention)"]
BUDGET = {"quick": {"random": 5000}, "thorough": {"random": 60000}}
EPS = 2e-3


def strategy(tier):
    return rc.render_case(max_obj=10, max_sp=6, max_fam=10)


def _inside(pos, rect):
    return rect.x - EPS <= pos[0] <= rect.x + rect.w + EPS and rect.y - EPS <= pos[1] <= rect.y + rect.h + EPS


def _close(a, b):
    return abs(a[0] - b[0]) <= EPS and abs(a[1] - b[1]) <= EPS


def exhaustive(tier):
    return [(tier, i, 32) for i in range(32)]


def run_job(job):
    """every plane binary input up to 3x3 leaves (quick: plus a quarter of those with 4 object leaves; thorough: all of
    4x3 and an eighth of 4x4): ALL valid species mappings of the input are drawn one after the other from the same
    tree objects."""
    tier, idx, mod = job
    from .. import gen

    mo, ms = (4, 3) if tier == "quick" else (4, 4)
    for k, base in enumerate(gen.all_inputs(mo, ms)):
        if k % mod != idx:
            continue
        nobj, nsp = len(base["leaf_object_species"]), base["species_tree"].count(",") + 1
        if tier == "quick" and nobj == 4 and (k // mod) % 4:
            continue
        if tier != "quick" and nsp == 4 and nobj == 4 and (k // mod) % 8:
            continue
        case = dict(base)
        case["costs"] = dict(gen.DEFAULT)
        case.update(_kind="walk", _label_kind="none", _params={}, _unnamed=(k % 3 == 0),
                    _sizes=[[1.0 + (7 * i + k) % 23, 1.0 + (5 * i + 3 * k) % 17] for i in range(24)])
        yield case


def check(case):
    if case.get("_kind") != "walk":
        base = {k: v for k, v in case.items() if not k.startswith("_")}
        return _check_mapping(case, Instance(base, label=False), case["_mapping"], None)
    base = {k: v for k, v in case.items() if not k.startswith("_")}
    inst = Instance(base, label=False)
    shared = {}
    n = 0
    nontrivial = False
    for m in inst.all_mappings():
        res = _check_mapping(dict(case, _mapping=m), inst, m, shared)
        nontrivial = nontrivial or res.nontrivial
        n += 1
    return Result(nontrivial, ["walk", f"obj={len(inst.oleaves)}", f"mappings={'<=10' if n <= 10 else '<=100' if n <= 100 else '>100'}"], evals=2 * n)


def _cli_draw(case, inst, counts, out):
    import json
    import os

    from .. import pkg, stubs
    from ..plain import parse_newick

    data = pkg.guarded(out.to_dict)
    for key in ("object_tree", "species_tree"):
        data["input"][key] = parse_newick(data["input"][key]).to_newick(lengths=[1, 0.25, 3, 0, 12.5])
    exp_counts = {"LEAF": len(inst.oleaves), "S": counts["S"], "D": counts["D"], "T": counts["T"], "LOSS": counts["L"]}
    for orientation in ("vertical", "horizontal"):
        with stubs.TempDir() as tmp:
            src, dst = os.path.join(tmp, "rec.json"), os.path.join(tmp, "rec.tex")
            with open(src, "w") as fh:
                # a reconciliation file is one JSON document: on one line as `reconcile` writes it, or indented
                json.dump(data, fh, indent=(2 if orientation == "vertical" else None))
            with stubs.stub_tex(default=(14.0, 9.0)):
                status, _o, err = stubs.run_cli(["draw", "--input", src, "--output", dst, "--orientation", orientation])
            code = open(dst).read() if os.path.exists(dst) else ""
        if status != 0:
            raise Violation(f"cli.draw.{orientation}.status", observed={"status": status, "stderr": err[-300:]}, expected="status 0")
        try:
            pic = Picture(code)
            got = {k: len(pic.nodes(s)) for k, s in (("LEAF", "extant gene"), ("S", "speciation"), ("D", "duplication"),
                                                     ("T", "horizontal gene transfer"), ("LOSS", "loss"))}
            arrows = len(pic.transfer_arrows())
        except TikzError as exc:
            raise Violation(f"cli.draw.{orientation}.{exc.clause}", observed=str(exc.detail)[:300], expected="well-formed TikZ")
        if got != exp_counts or arrows != counts["T"]:
            raise Violation(f"cli.draw.{orientation}.event-statement-counts", observed=dict(got, arrows=arrows), expected=dict(exp_counts, arrows=counts["T"]))


def _check_mapping(case, inst, m, shared):
    pat, counts = inst.rec_profile(m)
    kinds = {n: ("LEAF" if not inst.ochildren[n] else ("T" if k[0] == "T" else k))
             for n, k in list(zip(inst.ointernal_pre, pat)) + [(l, "LEAF") for l in inst.oleaves]}
    exp_loss = Counter(inst.loss_species(m))
    transferred = []
    for n, k in zip(inst.ointernal_pre, pat):
        if k[0] == "T":
            l, r = inst.ochildren[n]
            transferred.append(r if k == "TL" else l)
    for orientation in ("VERTICAL", "HORIZONTAL"):
        out, lay, code, params, _stub = rc.compute(case, orientation, shared=shared)
        names = _stub.names
        tag = orientation.lower()
        # ---- layout -------------------------------------------------------
        seen = Counter()
        got_loss = Counter()
        boxes = {"LEAF": [], "S": [], "D": [], "T": []}
        loss_branches = []
        for species, sub in lay.items():
            for gene, br in sub.branches.items():
                kind = rc.branch_kind(br)
                if rc.is_pseudo(gene):
                    if kind != "LOSS":
                        raise Violation(f"layout.{tag}.pseudo-gene-not-a-loss", observed=kind, expected="LOSS")
                    got_loss[names[species]] += 1
                    if (br.left is None) == (br.right is None):
                        raise Violation(f"layout.{tag}.loss-branch-children", observed=(br.left is None, br.right is None), expected="exactly one kept child")
                    loss_branches.append((species, sub, br))
                    continue
                name = names[gene]
                seen[name] += 1
                if kind == "LOSS":
                    raise Violation(f"layout.{tag}.object-node-drawn-as-loss", observed=name, expected=kinds.get(name))
                if m[name] != names[species]:
                    raise Violation(f"layout.{tag}.event-in-wrong-species", observed=names[species], expected=m[name], extra={"node": name})
                if kind != kinds[name]:
                    raise Violation(f"layout.{tag}.event-kind", observed=kind, expected=kinds[name], extra={"node": name})
                boxes[kind].append(br.rect)
        missing = [n for n in inst.onodes if seen[n] != 1]
        if missing:
            raise Violation(f"layout.{tag}.event-node-count", observed={n: seen[n] for n in missing}, expected="exactly one per object node")
        if got_loss != exp_loss:
            raise Violation(f"layout.{tag}.loss-species", observed=dict(got_loss), expected=dict(exp_loss))
        # ---- TikZ ----------------------------------------------------------
        try:
            pic = Picture(code)
            nodes = {k: pic.nodes(s) for k, s in (("LEAF", "extant gene"), ("S", "speciation"), ("D", "duplication"),
                                                    ("T", "horizontal gene transfer"), ("LOSS", "loss"))}
            arrows = pic.transfer_arrows()
        except TikzError as exc:
            raise Violation(f"tikz.{tag}.{exc.clause}", observed=str(exc.detail)[:300], expected="well-formed TikZ")
        exp_counts = {"LEAF": len(inst.oleaves), "S": counts["S"], "D": counts["D"], "T": counts["T"], "LOSS": counts["L"]}
        got_counts = {k: len(v) for k, v in nodes.items()}
        if got_counts != exp_counts:
            raise Violation(f"tikz.{tag}.event-statement-counts", observed=got_counts, expected=exp_counts)
        if len(arrows) != counts["T"]:
            raise Violation(f"tikz.{tag}.transfer-arrow-count", observed=len(arrows), expected=counts["T"])
        for kind in ("LEAF", "S", "D", "T"):
            for nd in nodes[kind]:
                if not any(_inside(nd["pos"], r) for r in boxes[kind]):
                    raise Violation(f"tikz.{tag}.event-node-outside-its-box", observed=nd["raw"][:200], expected=f"inside a {kind} box of the layout")
        # loss markers: one-to-one with loss branches, on the trunk edge of their species
        free = list(nodes["LOSS"])
        for species, sub, br in loss_branches:
            c = br.rect.center()
            t = sub.trunk
            if orientation == "VERTICAL":
                cands = [(t.x, c.y), (t.x + t.w, c.y)]
            else:
                cands = [(c.x, t.y), (c.x, t.y + t.h)]
            hit = next((nd for nd in free if any(_close(nd["pos"], cd) for cd in cands)), None)
            if hit is None:
                raise Violation(f"tikz.{tag}.loss-marker-not-in-its-species", observed=[nd["pos"] for nd in free][:4],
                                expected={"species": names[species], "candidates": cands})
            free.remove(hit)
        # arrows end at the transferred child
        onode = {names[n]: n for n in out.input.object_tree.traverse()}
        snode = {names[n]: n for n in out.input.species_lca.tree.traverse()}
        want = []
        for child in transferred:
            sub = lay[snode[m[child]]]
            if onode[child] not in sub.anchors:
                raise Violation(f"layout.{tag}.transferred-child-has-no-anchor", observed=child, expected="anchor in its species")
            p = sub.anchors[onode[child]]
            want.append((p.x, p.y))
        ends = [a["end"] for a in arrows]
        for w in want:
            hit = next((e for e in ends if _close(e, w)), None)
            if hit is None:
                raise Violation(f"tikz.{tag}.arrow-does-not-end-at-transferred-child", observed=ends[:4], expected=w)
            ends.remove(hit)
    labels_extra = []
    if shared is None and not case.get("_unnamed") and int(case_hash(case), 16) % 6 == 0:
        # the command-line path: the reconciliation written to a file (Newick strings with branch lengths, as a
        # hand-written file may have) and drawn with `superrec2 draw ... tikz` shows the same events
        _cli_draw(case, inst, counts, out)
        labels_extra.append("cli_draw")
    n_kinds = sum(1 for k in ("S", "D", "T") if counts[k])
    labels = [f"labels={case['_label_kind']}", f"obj={min(len(inst.oleaves), 10)}"] + labels_extra
    if counts["T"]:
        labels.append("transfer")
    if counts["L"]:
        labels.append("loss")
    return Result(counts["L"] >= 1 and n_kinds >= 2, labels, evals=2)
