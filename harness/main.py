"""./vcheck <ID> [--tier quick|thorough] [--replay FILE]"""
import argparse
import os
import sys
import traceback


def main():
    ap = argparse.ArgumentParser()
    ap.add_argument("prop")
    ap.add_argument("--tier", default=os.environ.get("VERIF_TIER", "quick"), choices=["quick", "thorough"])
    ap.add_argument("--replay")
    args = ap.parse_args()
    try:
        seed = int(os.environ.get("VERIF_SEED", "1") or "1")
    except ValueError:
        seed = 1
    try:
        from . import runner

        if args.replay:
            return runner.replay(args.prop.upper(), args.replay)
        return runner.run_property(args.prop.upper(), args.tier, seed)
    except Exception:
        print("HARNESS ERROR:\n" + traceback.format_exc(), file=sys.stderr)
        return 2


if __name__ == "__main__":
    sys.exit(main())
