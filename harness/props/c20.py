"""C20 - triple decomposition, supertree construction and disjoint sets are exact."""
import itertools

from hypothesis import strategies as st

from ..oracles import all_binary_on
from ..runner import Result, Violation

ID = "C20"
LEVEL = "exploration"
LEVEL_TEXT = (
    "Exhaustive: every binary tree on up to 5 leaves (quick) / 6 leaves (thorough) for the triple round trip; all 4096 subsets of the 12 rooted "
    "triples on 4 leaves for the all-trees and single-tree routines against 'filter the 15 binary trees by displays-every-triple'; all union "
    "histories up to length 3 (quick) / 4 (thorough) on 5 elements against a naive partition, including the enumeration of two-block "
    "coarsenings; plus random triple subsets on 5-6 leaves, random supertree inputs and longer random union histories."
)
LEVEL_NOTE = "Trusted: the independent generator of all rooted binary trees, the displays-a-triple test on nested tuples and the naive partition model in this module."
TECHNIQUE = "exhaustive enumeration (trees, triple subsets, union histories) + Hypothesis random inputs vs brute-force filters and a naive partition model"
DESIGN_REF = "DESIGN.md section 7 (C20)"
RULE = (
    "Exhaustive: (a) every rooted binary tree on 1..5 / 1..6 labelled leaves: tree_from_triples(*tree_to_triples(t)) has t's clades and every "
    "produced triple is displayed by t; (b) every subset of the 12 triples on leaves a-d: all_trees_from_triples as a multiset of clade sets == the "
    "binary trees displaying every triple, no repeats; tree_from_triples is None iff that set is empty and otherwise displays every triple; (c) "
    "every sequence of <=3 / <=4 unions on 5 elements: find-equality, len, to_list == naive partition, unite's return value, binary() yields each "
    "of the 2^(k-1)-1 two-block coarsenings exactly once and leaves the structure unchanged.  Random: triple subsets on 5-6 leaves (105 / 945 "
    "reference trees); supertree of 2-3 restrictions of a random tree displays each restriction; union histories up to 30 steps on up to 9 "
    "elements.  Non-trivial: triple set neither empty nor complete / >=1 effective union / tree with >=4 leaves; distinct by SHA-1 of the case."
    '  Also: all_supertrees == all binary trees on <=6 leaves displaying every input (each once); supertree inputs restricted from two different trees (None iff no displaying tree exists); hostile leaf labels (:,;()[]= space tab accents, empty) in half of the random triple-set cases; inputs unchanged by the calls.'
)
ASSUMPTIONS = ["leaf labels distinct strings", "triples given in the canonical form (a, b | c) produced by the package"]
BUDGET = {"quick": {"random": 1500}, "thorough": {"random": 30000}}
EXHAUSTIVE_RULE = {"quick": "binary trees <=5 leaves; 4096 triple subsets on 4 leaves; union histories <=3 on 5 elements",
                   "thorough": "binary trees <=6 leaves; 4096 triple subsets; union histories <=4 on 5 elements (390625)"}
EXHAUSTIVE_COMPLETE = False

L4 = list("abcd")
TRIPLES4 = []
for _s in itertools.combinations(L4, 3):
    for _out in _s:
        _x, _y = [z for z in _s if z != _out]
        TRIPLES4.append((_x, _y, _out))
PAIRS5 = [(a, b) for a in range(5) for b in range(5)]


def nw(t):
    return t if isinstance(t, str) else "(" + ",".join(nw(c) for c in t) + ")"


def leafset(t):
    return frozenset([t]) if isinstance(t, str) else frozenset().union(*(leafset(c) for c in t))


def clades_nested(t):
    if isinstance(t, str):
        return {frozenset([t])}
    out = {leafset(t)}
    for c in t:
        out |= clades_nested(c)
    return out


def lca_set(t, xs):
    """leaf set of the lowest node of nested tree t containing all of xs."""
    if isinstance(t, str):
        return frozenset([t])
    for c in t:
        if xs <= leafset(c):
            return lca_set(c, xs)
    return leafset(t)


def displays(t, triple):
    a, b, c = triple
    ab = lca_set(t, {a, b})
    abc = lca_set(t, {a, b, c})
    return ab < abc and c not in ab


def ete_clades(tree):
    return frozenset(frozenset(l.name for l in n.get_leaves()) for n in tree.traverse())


def ete_nested(tree):
    if tree.is_leaf():
        return tree.name
    return tuple(ete_nested(c) for c in tree.children)


def exhaustive(tier):
    top = 5 if tier == "quick" else 6
    hist = 3 if tier == "quick" else 4
    return [("trees", top, i, 8) for i in range(8)] + [("subsets", 0, i, 16) for i in range(16)] + [("unions", hist, i, 32) for i in range(32)]


def run_job(job):
    kind, param, idx, mod = job
    if kind == "trees":
        k = 0
        for n in range(1, param + 1):
            for t in all_binary_on(list("abcdef"[:n])):
                k += 1
                if k % mod == idx:
                    yield {"kind": "roundtrip", "tree": nw(t) + ";"}
    elif kind == "subsets":
        for bits in range(1 << 12):
            if bits % mod == idx:
                yield {"kind": "triples", "leaves": L4, "triples": [list(TRIPLES4[i]) for i in range(12) if bits >> i & 1]}
    else:
        k = 0
        for n in range(param + 1):
            for hist in itertools.product(PAIRS5, repeat=n):
                k += 1
                if k % mod == idx:
                    yield {"kind": "unions", "n": 5, "hist": [list(p) for p in hist]}


@st.composite
def _random(draw):
    which = draw(st.sampled_from(["triples", "supertree", "unions"]))
    if which == "triples":
        n = draw(st.sampled_from([5, 5, 6]))
        leaves = list("abcdef"[:n])
        alltr = []
        for s in itertools.combinations(leaves, 3):
            for out in s:
                x, y = [z for z in s if z != out]
                alltr.append([x, y, out])
        if draw(st.booleans()):
            # compatible by construction: triples displayed by a drawn tree
            from .. import gen
            t = draw(gen.nested_tree(leaves))
            cand = [tr for tr in alltr if displays(t, tr)]
        else:
            cand = alltr
        k = draw(st.integers(0, min(8, len(cand))))
        idxs = draw(st.lists(st.integers(0, len(cand) - 1), min_size=k, max_size=k, unique=True)) if cand else []
        case = {"kind": "triples", "leaves": leaves, "triples": [cand[i] for i in idxs]}
        if draw(st.booleans()):
            # leaf labels are arbitrary strings for these routines (they take and return labels, not Newick text)
            pool = ["sp:1", "g(3)", "a,b", "x;y", "[k]", "p=q", "two words", "tab\there", "s_1", "s:1", "\u00e9t\u00e9", "'q'", "0", ""]
            pick = draw(st.permutations(pool))
            ren = {l: pick[i] for i, l in enumerate(leaves)}
            case["leaves"] = [ren[l] for l in leaves]
            case["triples"] = [[ren[x] for x in tr] for tr in case["triples"]]
            case["hostile_labels"] = True
        return case
    if which == "supertree":
        from .. import gen
        n = draw(st.integers(3, 7))
        leaves = list("abcdefg"[:n])
        t = draw(gen.nested_tree(leaves))
        subsets = []
        for _ in range(draw(st.integers(2, 3))):
            mask = draw(st.integers(1, 2**n - 1))
            sub = [l for i, l in enumerate(leaves) if mask >> i & 1]
            subsets.append(sub)
        case = {"kind": "supertree", "tree": nw(t) + ";", "subsets": subsets}
        if n <= 6 and draw(st.booleans()):
            # restrictions of two different trees: possibly incompatible inputs
            case["tree2"] = nw(draw(gen.nested_tree(leaves))) + ";"
        return case
    n = draw(st.integers(1, 9))
    hist = draw(st.lists(st.tuples(st.integers(0, n - 1), st.integers(0, n - 1)).map(list), max_size=30))
    return {"kind": "unions", "n": n, "hist": hist}


def strategy(tier):
    return _random()


def restrict(t, keep):
    """restriction of nested tree t to the leaves in keep (None if empty)."""
    if isinstance(t, str):
        return t if t in keep else None
    parts = [r for r in (restrict(c, keep) for c in t) if r is not None]
    if not parts:
        return None
    if len(parts) == 1:
        return parts[0]
    return tuple(parts)


def parse_nested(newick):
    from ..plain import parse_newick

    pt = parse_newick(newick)

    def rec(n):
        if pt.is_leaf(n):
            return pt.name[n]
        return tuple(rec(c) for c in pt.children[n])

    return rec(0)


def check(case):
    from ete3 import Tree
    from superrec2.utils.disjoint_set import DisjointSet
    from superrec2.utils.trees import all_trees_from_triples, supertree, tree_from_triples, tree_to_triples

    kind = case["kind"]
    if kind == "roundtrip":
        t = parse_nested(case["tree"])
        # the same tree four ways: plain; with two patterns of branch lengths (data of the tree, not part of its
        # shape); as a clade of a larger tree (its root has a parent)
        for variant in ("plain", "lengths-a", "lengths-b", "clade-of-larger-tree"):
            tree = Tree(case["tree"], format=1)
            if variant.startswith("lengths"):
                pattern = (0.5, 3.0, 0.0, 1.0, 12.0) if variant.endswith("a") else (1.0, 1.0, 5.0, 0.25, 9.0, 2.0, 0.0)
                for k, node in enumerate(tree.traverse()):
                    node.dist = pattern[k % len(pattern)]
            if variant == "clade-of-larger-tree":
                host = Tree("(zz1,zz2);", format=1)
                host.children[0].add_child(tree)
                host.children[0].add_child(name="zz3")
            before = tree.write(format=9)
            leaves, triples = tree_to_triples(tree)
            if tree.write(format=9) != before:
                raise Violation("tree_to_triples.input-modified", observed=tree.write(format=9), expected=before, extra={"variant": variant})
            if sorted(leaves) != sorted(leafset(t)):
                raise Violation("tree_to_triples.leaves", observed=leaves, expected=sorted(leafset(t)), extra={"variant": variant})
            for tr in triples:
                if not displays(t, tuple(tr)):
                    raise Violation("tree_to_triples.triple-not-displayed", observed=tr, expected=case["tree"], extra={"variant": variant})
            back = tree_from_triples(leaves, triples)
            if back is None or ete_clades(back) != frozenset(clades_nested(t)):
                raise Violation("roundtrip.clades", observed=None if back is None else back.write(format=9), expected=case["tree"], extra={"variant": variant})
        return Result(len(leafset(t)) >= 4, ["roundtrip", f"leaves={len(leafset(t))}"], evals=8)
    if kind == "triples":
        leaves = list(case["leaves"])
        triples = [tuple(t) for t in case["triples"]]
        ref = [t for t in all_binary_on(leaves) if all(displays(t, tr) for tr in triples)]
        exp = sorted(sorted(map(sorted, clades_nested(t))) for t in ref)
        got_trees = all_trees_from_triples(list(leaves), list(triples))
        got = sorted(sorted(map(sorted, ete_clades(g))) for g in got_trees)
        if got != exp:
            if len(got) != len({str(g) for g in got}):
                raise Violation("all_trees.duplicate", observed=len(got), expected=len(exp))
            raise Violation("all_trees.set", observed=len(got), expected=len(exp), extra={"triples": triples})
        one = tree_from_triples(list(leaves), list(triples))
        if (one is None) != (not ref):
            raise Violation("tree_from_triples.existence", observed=None if one is None else one.write(format=9), expected="a tree" if ref else None)
        if one is not None:
            nested = ete_nested(one)
            if leafset(nested) != frozenset(leaves):
                raise Violation("tree_from_triples.leaves", observed=sorted(leafset(nested)), expected=leaves)
            for tr in triples:
                if not displays(nested, tr):
                    raise Violation("tree_from_triples.triple-not-displayed", observed=one.write(format=9), expected=tr)
        total = len(leaves) * (len(leaves) - 1) * (len(leaves) - 2) // 2
        return Result(0 < len(triples) < total, ["triples", f"leaves={len(leaves)}", "consistent" if ref else "inconsistent"], evals=2)
    if kind == "supertree":
        from superrec2.utils.trees import all_supertrees

        t = parse_nested(case["tree"])
        t2 = parse_nested(case["tree2"]) if "tree2" in case else t
        parts = [restrict(t if i % 2 == 0 else t2, set(s)) for i, s in enumerate(case["subsets"])]
        parts = [p for p in parts if p is not None]
        trees = [Tree(nw(p) + ";", format=1) for p in parts]
        before = [x.write(format=9) for x in trees]
        sup = supertree(trees)
        all_leaves = frozenset().union(*(leafset(p) for p in parts))
        part_triples = [[tr for tr in itertools.permutations(sorted(leafset(p)), 3) if tr[0] < tr[1] and displays(p, tr)] for p in parts]
        ref = None
        if len(all_leaves) <= 6:
            ref = [b for b in all_binary_on(sorted(all_leaves)) if all(displays(b, tr) for trs in part_triples for tr in trs)]
        labels = ["supertree", "two_sources" if "tree2" in case else "one_source"]
        if sup is None:
            if "tree2" not in case or ref:
                raise Violation("supertree.none-for-compatible-trees", observed=None, expected="a supertree", extra={"parts": [nw(p) for p in parts]})
            labels.append("incompatible")
        else:
            if ref is not None and not ref:
                raise Violation("supertree.tree-for-incompatible-trees", observed=sup.write(format=9), expected=None, extra={"parts": [nw(p) for p in parts]})
            nested = ete_nested(sup)
            if leafset(nested) != all_leaves:
                raise Violation("supertree.leaves", observed=sorted(leafset(nested)), expected=sorted(all_leaves))
            if "tree2" not in case or ref is not None:
                for p, trs in zip(parts, part_triples):
                    # sup displays p iff every triple displayed by p is displayed by sup
                    for tr in trs:
                        if not displays(nested, tr):
                            raise Violation("supertree.does-not-display-input", observed=sup.write(format=9), expected=nw(p), extra={"triple": tr})
        evals = 1
        if ref is not None:
            # all_supertrees: exactly the binary trees on the union of the leaves that display every input, each once
            exp = sorted(sorted(map(sorted, clades_nested(b))) for b in ref)
            got = sorted(sorted(map(sorted, ete_clades(g))) for g in all_supertrees(trees))
            evals += 1
            if got != exp:
                if len(got) != len({str(g) for g in got}):
                    raise Violation("all_supertrees.duplicate", observed=len(got), expected=len(exp))
                raise Violation("all_supertrees.set", observed=len(got), expected=len(exp), extra={"parts": [nw(p) for p in parts]})
            labels.append("all_supertrees=" + ("0" if not exp else "1" if len(exp) == 1 else ">1"))
        if [x.write(format=9) for x in trees] != before:
            raise Violation("supertree.input-modified", observed=[x.write(format=9) for x in trees], expected=before)
        return Result(len(all_leaves) >= 4, labels, evals=evals)
    # unions
    n = case["n"]
    ds = DisjointSet(n)
    part = [{i} for i in range(n)]
    effective = 0
    for a, b in case["hist"]:
        pa = next(p for p in part if a in p)
        pb = next(p for p in part if b in p)
        merged = pa is not pb
        got = ds.unite(a, b)
        if merged:
            part.remove(pb)
            pa |= pb
            effective += 1
        if got != merged:
            raise Violation("disjoint_set.unite-result", observed=got, expected=merged)
        if len(ds) != len(part):
            raise Violation("disjoint_set.len", observed=len(ds), expected=len(part))
    norm = lambda groups: sorted(sorted(g) for g in groups)  # noqa: E731
    if len(case["hist"]) % 2 == 0:
        # the printed form reports the partition too - asked before anything else compresses paths
        import re

        text = repr(ds)
        groups = [[int(x) for x in g.split(",") if x.strip()] for g in re.findall(r"\{([0-9, ]*)\}", text[len("DisjointSet("):])]
        if norm(groups) != norm(part):
            raise Violation("disjoint_set.repr", observed=text, expected=norm(part))
    if norm(ds.to_list()) != norm(part):
        raise Violation("disjoint_set.to_list", observed=norm(ds.to_list()), expected=norm(part))
    for a in range(n):
        for b in range(n):
            same = any(a in p and b in p for p in part)
            if (ds.find(a) == ds.find(b)) != same:
                raise Violation("disjoint_set.find", observed=ds.find(a) == ds.find(b), expected=same, extra={"a": a, "b": b})
    k = len(part)
    bins = ds.binary()
    got = [tuple(tuple(g) for g in norm(b.to_list())) for b in bins]
    exp_n = 2 ** (k - 1) - 1 if k >= 2 else 0
    if len(got) != len(set(got)):
        raise Violation("disjoint_set.binary.duplicate", observed=len(got), expected=exp_n)
    if len(got) != exp_n:
        raise Violation("disjoint_set.binary.count", observed=len(got), expected=exp_n)
    blocks = [frozenset(p) for p in part]
    for b in bins:
        groups = [frozenset(g) for g in b.to_list()]
        if len(groups) != 2 or len(b) != 2:
            raise Violation("disjoint_set.binary.not-two-blocks", observed=len(groups), expected=2)
        for blk in blocks:
            if not any(blk <= g for g in groups):
                raise Violation("disjoint_set.binary.not-a-coarsening", observed=norm(groups), expected=norm(part))
    if norm(ds.to_list()) != norm(part) or len(ds) != k:
        raise Violation("disjoint_set.binary.modified-original", observed=norm(ds.to_list()), expected=norm(part))
    return Result(effective >= 1, ["unions", f"groups={k}"], evals=1 + len(case["hist"]))
