"""C18 - subsequence masks and segment distances are exact."""
from hypothesis import strategies as st

from ..gen import chance as gen_chance
from ..runner import Result, Violation

ID = "C18"
LEVEL = "exploration"
LEVEL_TEXT = (
    "Exhaustive over the finite domain stated by the property: all (child != 0, parent) mask pairs up to 10 bits and both end modes (2.1 million "
    "calls) against run counting on explicit lists, and all sequences of distinct elements up to length 8 with all their subsequences for the "
    "mask conversions (both directions); plus random wider masks (up to 24 bits) and random element types."
)
LEVEL_NOTE = "Trusted: the list-based run counter in this module. Child masks are non-empty (segment distance is specified for non-empty children only)."
TECHNIQUE = "exhaustive enumeration of mask pairs / subsequences + Hypothesis random wide masks vs list-based reference"
DESIGN_REF = "DESIGN.md section 7 (C18)"
RULE = (
    "Exhaustive: for parent in 0..2^10-1, child in 1..2^10-1, edges in {True, False}: subseq_segment_dist == -1 iff child has a bit outside parent, "
    "else the number of maximal runs of parent positions absent from child (runs touching either end ignored when edges=False).  For L in 0..8, "
    "parent = L distinct elements, every mask m: subseq_from_mask(m) == elements at set bits, mask_from_subseq(that) == m, subseq_complete == 2^L-1. "
    "Conversions on one list object edited in place between calls (every in-place permutation of 2..5 elements exhaustively; random histories of reverse/swap/replace/append/pop/rotate/copy) must follow the current content.  History independence: every ordered couple of calls over the contained pairs up to 6 bits (first call with one end mode, second with the other) and random call sequences of 2-12 calls on <=7 bits must give the reference answer for the later call.  Random: masks up to 24 bits, sequences of distinct strings/ints/tuples.  The exhaustive space is enumerated completely in both tiers.  "
    "Non-trivial: child strictly inside parent with >=1 interior and >=1 end run; distinct by (child, parent)."
)
ASSUMPTIONS = ["child mask non-empty", "sequence elements distinct"]
BUDGET = {"quick": {"random": 3000}, "thorough": {"random": 100000}}
EXHAUSTIVE_RULE = {"quick": "all (child, parent) pairs up to 10 bits x 2 end modes; all subsequences of sequences up to length 8",
                   "thorough": "same (the finite domain is complete in both tiers)"}
EXHAUSTIVE_COMPLETE = False
BITS = 10


def ref_dist(child, parent, edges, nbits):
    if child & ~parent:
        return -1
    bits = [i for i in range(nbits) if parent >> i & 1]
    flags = [bool(child >> i & 1) for i in bits]
    runs = []
    i = 0
    while i < len(flags):
        if not flags[i]:
            j = i
            while j < len(flags) and not flags[j]:
                j += 1
            runs.append((i, j))
            i = j
        else:
            i += 1
    if not edges:
        runs = [r for r in runs if r[0] != 0 and r[1] != len(flags)]
    return len(runs)


def exhaustive(tier):
    return [("dist", i, 64) for i in range(64)] + [("conv", 0, 1)] + [("couples", i, 32) for i in range(32)] + [("inplace", 0, 1)]


def run_job(job):
    kind, idx, mod = job
    if kind == "dist":
        for parent in range(1 << BITS):
            if parent % mod == idx:
                yield {"kind": "dist_block", "parent": parent}
    elif kind == "couples":
        # the functions are pure: an answer may not depend on the calls made before it
        pairs = contained_pairs(6)
        for k in range(len(pairs)):
            if k % mod == idx:
                yield {"kind": "couple_block", "first": k}
    elif kind == "inplace":
        for length in range(2, 6):
            yield {"kind": "inplace_block", "length": length}
    else:
        for length in range(0, 9):
            yield {"kind": "conv_block", "length": length}
        for length in range(0, 7):
            yield {"kind": "conv_block", "length": length, "elements": "tuples"}


def contained_pairs(bits):
    return [(c, p) for p in range(1 << bits) for c in range(1, 1 << bits) if not c & ~p]


def _conv_all(seq, tag, extra):
    """all three conversions on the list object `seq` as it is now, every mask."""
    from superrec2.utils.subsequences import mask_from_subseq, subseq_complete, subseq_from_mask

    n = len(seq)
    if subseq_complete(seq) != (1 << n) - 1:
        raise Violation(f"subseq_complete.{tag}", observed=subseq_complete(seq), expected=(1 << n) - 1, extra=extra)
    for mask in range(1 << n):
        exp = [seq[i] for i in range(n) if mask >> i & 1]
        sub = subseq_from_mask(mask, seq)
        if sub != exp:
            raise Violation(f"subseq_from_mask.{tag}", observed=sub, expected=exp, extra=dict(extra, mask=mask, sequence=list(seq)))
        back = mask_from_subseq(exp, seq)
        if back != mask:
            raise Violation(f"mask_from_subseq.{tag}", observed=back, expected=mask, extra=dict(extra, subseq=exp, sequence=list(seq)))
    return 2 << n


@st.composite
def _random(draw):
    if gen_chance(draw, 1, 5):
        n = draw(st.integers(2, 6))
        ops = []
        for _ in range(draw(st.integers(1, 6))):
            op = draw(st.sampled_from(["reverse", "swap", "replace", "append", "pop", "rotate", "copy"]))
            ops.append([op, draw(st.integers(0, 7)), draw(st.integers(0, 7))])
        return {"kind": "conv_history", "n": n, "ops": ops}
    if gen_chance(draw, 1, 3):
        nb = draw(st.integers(1, 7))
        calls = []
        for _ in range(draw(st.integers(2, 12))):
            parent = draw(st.integers(0, 2**nb - 1))
            child = draw(st.integers(1, 2**nb - 1))
            if draw(st.booleans()):
                child = (child & parent) or (parent & -parent) or 1
            calls.append([child, parent, draw(st.booleans())])
        return {"kind": "sequence", "calls": calls, "bits": nb}
    if draw(st.booleans()):
        nb = draw(st.integers(1, 24))
        parent = draw(st.integers(0, 2**nb - 1))
        child = draw(st.integers(1, 2**nb - 1))
        if draw(st.booleans()):
            child &= parent
            if child == 0:
                child = parent & -parent if parent else 1
        return {"kind": "dist", "parent": parent, "child": child, "bits": nb}
    elems = draw(st.lists(st.one_of(st.integers(-50, 50), st.text("abcg_0123", min_size=1, max_size=4)), min_size=0, max_size=14, unique=True))
    mask = draw(st.integers(0, 2 ** len(elems) - 1))
    return {"kind": "conv", "elems": elems, "mask": mask}


def strategy(tier):
    return _random()


def check(case):
    from superrec2.utils.subsequences import mask_from_subseq, subseq_complete, subseq_from_mask, subseq_segment_dist

    kind = case["kind"]
    if kind in ("dist_block", "dist"):
        if kind == "dist_block":
            parent, nbits = case["parent"], BITS
            children = range(1, 1 << BITS)
        else:
            parent, nbits = case["parent"], case["bits"]
            children = [case["child"]]
        nt = 0
        evals = 0
        for child in children:
            for edges in (True, False):
                got = subseq_segment_dist(child, parent, edges)
                exp = ref_dist(child, parent, edges, nbits)
                evals += 1
                if got != exp:
                    raise Violation("segment_dist", observed=got, expected=exp, extra={"child": bin(child), "parent": bin(parent), "edges": edges})
            if not child & ~parent and ref_dist(child, parent, False, nbits) >= 1 and ref_dist(child, parent, True, nbits) > ref_dist(child, parent, False, nbits):
                nt += 1
        return Result(nt > 0, [kind, f"nontrivial_pairs={min(nt, 1)}"], evals=evals)
    if kind == "couple_block":
        pairs = contained_pairs(6)
        c1, p1 = pairs[case["first"]]
        evals = 0
        for c2, p2 in pairs:
            for e1, e2 in ((True, False), (False, True)):
                subseq_segment_dist(c1, p1, e1)
                got = subseq_segment_dist(c2, p2, e2)
                exp = ref_dist(c2, p2, e2, 6)
                evals += 1
                if got != exp:
                    raise Violation("segment_dist.depends-on-previous-call", observed=got, expected=exp,
                                    extra={"previous": [bin(c1), bin(p1), e1], "call": [bin(c2), bin(p2), e2]})
        return Result(True, [kind], evals=evals)
    if kind == "sequence":
        evals = 0
        for child, parent, edges in case["calls"]:
            got = subseq_segment_dist(child, parent, edges)
            exp = ref_dist(child, parent, edges, case["bits"])
            evals += 1
            if got != exp:
                raise Violation("segment_dist.in-sequence", observed=got, expected=exp,
                                extra={"child": bin(child), "parent": bin(parent), "edges": edges})
        return Result(len(case["calls"]) >= 3, [kind], evals=evals)
    if kind == "inplace_block":
        # the functions take the parent sequence as an argument: the same list object holding another
        # order must be converted by its current content (every in-place permutation of 2..5 elements)
        import itertools

        length = case["length"]
        evals = 0
        for perm in itertools.permutations(range(length)):
            seq = [f"e{i}" for i in range(length)]
            evals += _conv_all(seq, "before-edit", {"perm": perm})
            seq[:] = [f"e{i}" for i in perm]
            evals += _conv_all(seq, "after-in-place-edit", {"perm": perm})
        return Result(True, [kind], evals=evals)
    if kind == "conv_history":
        seq = [f"e{i}" for i in range(case["n"])]
        fresh = case["n"]
        evals = _conv_all(seq, "initial", {})
        for step, (op, a, b) in enumerate(case["ops"]):
            if op == "reverse":
                seq.reverse()
            elif op == "swap" and seq:
                i, j = a % len(seq), b % len(seq)
                seq[i], seq[j] = seq[j], seq[i]
            elif op == "replace" and seq:
                seq[a % len(seq)] = f"e{fresh}"
                fresh += 1
            elif op == "append" and len(seq) < 8:
                seq.append(f"e{fresh}")
                fresh += 1
            elif op == "pop" and seq:
                seq.pop(a % len(seq))
            elif op == "rotate" and seq:
                k = a % len(seq)
                seq[:] = seq[k:] + seq[:k]
            elif op == "copy":
                seq = list(seq)  # an equal but distinct object
            evals += _conv_all(seq, f"after-{op}", {"step": step, "ops": case["ops"]})
        return Result(True, [kind], evals=evals)
    if kind == "conv_block":
        length = case["length"]
        parent = [f"e{i}" for i in range(length)]
        if case.get("elements") == "tuples":
            # elements that are themselves tuples (a subsequence of one such element is a list holding that tuple)
            parent = [("e", i) for i in range(length)]
        evals = 0
        if subseq_complete(parent) != (1 << length) - 1:
            raise Violation("subseq_complete", observed=subseq_complete(parent), expected=(1 << length) - 1)
        for mask in range(1 << length):
            sub = subseq_from_mask(mask, parent)
            exp = [parent[i] for i in range(length) if mask >> i & 1]
            if sub != exp:
                raise Violation("subseq_from_mask", observed=sub, expected=exp, extra={"mask": mask})
            back = mask_from_subseq(exp, parent)
            if back != mask:
                raise Violation("mask_from_subseq", observed=back, expected=mask, extra={"subseq": exp})
            # elements are matched by equality: a subsequence made of equal but distinct objects (strings built at run
            # time, rebuilt tuples) is the same subsequence
            twin = [("".join(list(x)) if isinstance(x, str) else tuple(list(x))) for x in exp]
            back = mask_from_subseq(twin, parent)
            if back != mask:
                raise Violation("mask_from_subseq.equal-but-distinct-objects", observed=back, expected=mask, extra={"subseq": exp})
            if subseq_from_mask(mask_from_subseq(exp, parent), parent) != exp:
                raise Violation("roundtrip.subseq", observed="differs", expected=exp)
            evals += 2
        return Result(length >= 2, [kind], evals=evals)
    elems, mask = case["elems"], case["mask"]
    exp = [elems[i] for i in range(len(elems)) if mask >> i & 1]
    sub = subseq_from_mask(mask, elems)
    if sub != exp:
        raise Violation("subseq_from_mask", observed=sub, expected=exp, extra={"mask": mask})
    if mask_from_subseq(exp, elems) != mask:
        raise Violation("mask_from_subseq", observed=mask_from_subseq(exp, elems), expected=mask, extra={"subseq": exp})
    if subseq_complete(elems) != (1 << len(elems)) - 1:
        raise Violation("subseq_complete", observed=subseq_complete(elems), expected=(1 << len(elems)) - 1)
    return Result(len(elems) >= 2 and 0 < mask < (1 << len(elems)) - 1, ["conv"], evals=2)
