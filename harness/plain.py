"""Independent plain-data model of reconciliation inputs and results.

Nothing in this module imports superrec2 or ete3.  Trees are parsed from
Newick by a small recursive-descent parser (names, optional NHX comments),
species ancestry is computed on explicit parent chains, and the documented
event model is evaluated on plain dictionaries keyed by node *names*.
"""
from __future__ import annotations

import itertools
from typing import Dict, List, Optional, Tuple

INF = float("inf")


# ---------------------------------------------------------------------------
# Newick
# ---------------------------------------------------------------------------
class PTree:
    """Rooted ordered tree; nodes are integers 0..n-1 in pre-order."""

    def __init__(self):
        self.name: List[str] = []
        self.children: List[List[int]] = []
        self.parent: List[Optional[int]] = []
        self.features: List[Dict[str, str]] = []

    # construction -----------------------------------------------------
    def add(self, parent: Optional[int], name: str = "", features=None) -> int:
        idx = len(self.name)
        self.name.append(name)
        self.children.append([])
        self.parent.append(parent)
        self.features.append(dict(features or {}))
        if parent is not None:
            self.children[parent].append(idx)
        return idx

    # queries ----------------------------------------------------------
    @property
    def root(self) -> int:
        return 0

    def __len__(self):
        return len(self.name)

    def nodes(self):
        return range(len(self.name))

    def is_leaf(self, n: int) -> bool:
        return not self.children[n]

    def leaves(self, n: int = 0) -> List[int]:
        if self.is_leaf(n):
            return [n]
        out = []
        for c in self.children[n]:
            out.extend(self.leaves(c))
        return out

    def preorder(self, n: int = 0) -> List[int]:
        out = [n]
        for c in self.children[n]:
            out.extend(self.preorder(c))
        return out

    def postorder(self, n: int = 0) -> List[int]:
        out = []
        for c in self.children[n]:
            out.extend(self.postorder(c))
        out.append(n)
        return out

    def chain(self, n: int) -> List[int]:
        """n, parent(n), ..., root."""
        out = [n]
        while self.parent[out[-1]] is not None:
            out.append(self.parent[out[-1]])
        return out

    def depth(self, n: int) -> int:
        return len(self.chain(n)) - 1

    def clade(self, n: int) -> frozenset:
        return frozenset(self.name[l] for l in self.leaves(n))

    def clades(self) -> frozenset:
        return frozenset(self.clade(n) for n in self.nodes())

    def is_binary(self) -> bool:
        return all(len(c) in (0, 2) for c in self.children)

    def by_name(self) -> Dict[str, int]:
        out = {}
        for n in self.nodes():
            if self.name[n] in out:
                raise ValueError(f"duplicate node name {self.name[n]!r}")
            out[self.name[n]] = n
        return out

    def to_newick(self, n: int = 0, with_features=True, lengths=None) -> str:
        """`lengths`: optional sequence of branch lengths written after the names of the non-root nodes (cyclically)."""
        def rec(k):
            s = ""
            if self.children[k]:
                s = "(" + ",".join(rec(c) for c in self.children[k]) + ")"
            s += self.name[k]
            if lengths and k != n:
                s += f":{lengths[k % len(lengths)]}"
            if with_features and self.features[k]:
                s += "[&&NHX:" + ":".join(
                    f"{a}={b}" for a, b in sorted(self.features[k].items())
                ) + "]"
            return s

        return rec(n) + ";"

    def shape(self, n: int = 0):
        """Nested tuple of names with child order (for equality tests)."""
        return (
            self.name[n],
            tuple(sorted(self.features[n].items())),
            tuple(self.shape(c) for c in self.children[n]),
        )


def parse_newick(text: str) -> PTree:
    """Parse `(a,b)name[&&NHX:k=v:k2=v2];` (no branch lengths needed, but a
    `:number` after a name is tolerated and ignored)."""
    tree = PTree()
    pos = 0
    text = text.strip()
    n = len(text)

    def parse_label(parent):
        nonlocal pos
        start = pos
        while pos < n and text[pos] not in "(),;[:":
            pos += 1
        name = text[start:pos]
        # optional branch length
        if pos < n and text[pos] == ":":
            pos += 1
            while pos < n and text[pos] not in "(),;[":
                pos += 1
        feats = {}
        if pos < n and text[pos] == "[":
            end = text.index("]", pos)
            body = text[pos + 1 : end]
            pos = end + 1
            if body.startswith("&&NHX:"):
                for item in body[len("&&NHX:") :].split(":"):
                    if "=" in item:
                        a, b = item.split("=", 1)
                        feats[a] = b
        return name, feats

    def parse_node(parent):
        nonlocal pos
        idx = tree.add(parent)
        if pos < n and text[pos] == "(":
            pos += 1
            while True:
                parse_node(idx)
                if text[pos] == ",":
                    pos += 1
                    continue
                if text[pos] == ")":
                    pos += 1
                    break
                raise ValueError(f"bad newick at {pos}: {text!r}")
        name, feats = parse_label(parent)
        tree.name[idx] = name
        tree.features[idx] = feats
        return idx

    parse_node(None)
    if pos < n and text[pos] == ";":
        pos += 1
    if pos != n:
        raise ValueError(f"trailing newick data at {pos}: {text!r}")
    return tree


def from_ete(node) -> PTree:
    """Copy an ete3-like tree object (attributes .name, .children, .features)
    into a PTree.  Only attribute access is used, no ete3 import."""
    tree = PTree()

    def rec(obj, parent):
        feats = {}
        for key in getattr(obj, "features", ()):
            if key not in ("name", "dist", "support"):
                feats[key] = str(getattr(obj, key))
        idx = tree.add(parent, obj.name, feats)
        for child in obj.children:
            rec(child, idx)

    rec(node, None)
    return tree


# ---------------------------------------------------------------------------
# Naming rule (independent statement of the documented O#/S# rule)
# ---------------------------------------------------------------------------
def label_internal(tree: PTree, prefix: str) -> None:
    """Unnamed nodes (empty or 'NoName') get `<prefix><k>` with k the
    smallest index not used by any node name, in pre-order."""
    used = set(tree.name)
    k = 0
    for n in tree.preorder():
        if tree.name[n] in ("", "NoName"):
            while f"{prefix}{k}" in used:
                k += 1
            tree.name[n] = f"{prefix}{k}"
            used.add(tree.name[n])


# ---------------------------------------------------------------------------
# Instances
# ---------------------------------------------------------------------------
COST_KEYS = ("SPECIATION", "DUPLICATION", "HORIZONTAL_TRANSFER", "FULL_LOSS", "SEGMENTAL_LOSS")
DEFAULT_COSTS = {
    "SPECIATION": 0,
    "DUPLICATION": 1,
    "HORIZONTAL_TRANSFER": 1,
    "FULL_LOSS": 1,
    "SEGMENTAL_LOSS": 1,
}


def norm_cost(v):
    if isinstance(v, str):
        return INF if v in ("inf", "Infinity") else int(v)
    if v == INF:
        return INF
    return v


def times(unit, count):
    """unit * count with 0 * inf = 0."""
    return 0 if count == 0 else unit * count


class Instance:
    """Plain view of a documented-format input (binary trees required for the
    event model; polytomies are handled by refinement elsewhere)."""

    def __init__(self, case: dict, label=True):
        self.case = case
        self.O = parse_newick(case["object_tree"])
        self.S = parse_newick(case["species_tree"])
        if label:
            label_internal(self.O, "O")
            label_internal(self.S, "S")
        O, S = self.O, self.S
        self.oid = O.by_name()
        self.sid = S.by_name()
        self.onodes = [O.name[n] for n in O.preorder()]
        self.ochildren = {O.name[n]: [O.name[c] for c in O.children[n]] for n in O.nodes()}
        self.oparent = {O.name[n]: (O.name[O.parent[n]] if O.parent[n] is not None else None) for n in O.nodes()}
        self.oroot = O.name[0]
        self.oleaves = [O.name[n] for n in O.preorder() if O.is_leaf(n)]
        self.ointernal_pre = [O.name[n] for n in O.preorder() if not O.is_leaf(n)]
        self.ointernal_post = [O.name[n] for n in O.postorder() if not O.is_leaf(n)]
        self.snodes = [S.name[n] for n in S.preorder()]
        self.schildren = {S.name[n]: [S.name[c] for c in S.children[n]] for n in S.nodes()}
        self.sparent = {S.name[n]: (S.name[S.parent[n]] if S.parent[n] is not None else None) for n in S.nodes()}
        self.anc = {S.name[n]: [S.name[a] for a in S.chain(n)] for n in S.nodes()}
        self.ancset = {k: frozenset(v) for k, v in self.anc.items()}
        self.dep = {k: len(v) - 1 for k, v in self.anc.items()}
        if "leaf_object_species" in case:
            self.los = dict(case["leaf_object_species"])
        else:
            # name-derived assignment: the species are the extant ones (leaves of the species tree); a generated or
            # given ancestral label that happens to spell like a leaf (S1 next to s1) is not a host of extant objects
            self.los = infer_species(self.oleaves, [x for x in self.snodes if not self.schildren[x]])
        costs = dict(DEFAULT_COSTS)
        for k, v in (case.get("costs") or {}).items():
            costs[k] = norm_cost(v)
        self.c = costs
        self.lsyn = {k: list(v) for k, v in (case.get("leaf_syntenies") or {}).items()}
        self._lca_cache: Dict[Tuple[str, str], str] = {}

    # species ancestry on parent chains -----------------------------------
    def is_anc(self, a: str, b: str) -> bool:
        """a is an ancestor of b or b itself."""
        return a in self.ancset[b]

    def is_strict_anc(self, a, b):
        return a != b and a in self.ancset[b]

    def comparable(self, a, b):
        return self.is_anc(a, b) or self.is_anc(b, a)

    def lca(self, a: str, b: str) -> str:
        key = (a, b)
        if key not in self._lca_cache:
            other = self.ancset[b]
            for x in self.anc[a]:
                if x in other:
                    self._lca_cache[key] = x
                    break
        return self._lca_cache[key]

    def dist(self, a, b) -> int:
        return self.dep[a] + self.dep[b] - 2 * self.dep[self.lca(a, b)]

    # event model -----------------------------------------------------------
    def event3(self, x, xl, xr):
        """Event of a node mapped to x with children at xl, xr.
        Returns (kind, full_losses) with kind in S, D, TL (left child
        conserved), TR (right child conserved); None if invalid."""
        if self.is_strict_anc(xl, x) or self.is_strict_anc(xr, x):
            return None
        al, ar = self.is_anc(x, xl), self.is_anc(x, xr)
        if al and ar:
            if x == self.lca(xl, xr) and not self.comparable(xl, xr):
                return ("S", self.dist(x, xl) + self.dist(x, xr) - 2)
            return ("D", self.dist(x, xl) + self.dist(x, xr))
        if al:
            return ("TL", self.dist(x, xl))
        if ar:
            return ("TR", self.dist(x, xr))
        return None

    def event(self, m: Dict[str, str], n: str):
        l, r = self.ochildren[n]
        return self.event3(m[n], m[l], m[r])

    def event_unit(self, kind):
        return {
            "S": self.c["SPECIATION"],
            "D": self.c["DUPLICATION"],
            "TL": self.c["HORIZONTAL_TRANSFER"],
            "TR": self.c["HORIZONTAL_TRANSFER"],
        }[kind]

    def lca_mapping(self) -> Dict[str, str]:
        m = {}

        def rec(n):
            if not self.ochildren[n]:
                m[n] = self.los[n]
            else:
                a, b = [rec(c) for c in self.ochildren[n]]
                m[n] = self.lca(a, b)
            return m[n]

        rec(self.oroot)
        return m

    def mapping_valid(self, m) -> Optional[str]:
        """None if valid, else a reason."""
        for n in self.onodes:
            if n not in m:
                return f"unmapped:{n}"
            if m[n] not in self.sid:
                return f"unknown-species:{m[n]}"
        for l in self.oleaves:
            if m[l] != self.los[l]:
                return f"leaf-moved:{l}"
        for n in self.ointernal_pre:
            if self.event(m, n) is None:
                return f"invalid-event:{n}"
        return None

    def rec_profile(self, m):
        """(pattern over ointernal_pre, counts dict) of a valid mapping."""
        pat = []
        counts = {"S": 0, "D": 0, "T": 0, "L": 0}
        for n in self.ointernal_pre:
            k, fl = self.event(m, n)
            pat.append(k)
            counts["T" if k[0] == "T" else k] += 1
            counts["L"] += fl
        return tuple(pat), counts

    def profile_cost(self, counts, c=None):
        c = c or self.c
        return (
            times(c["SPECIATION"], counts["S"])
            + times(c["DUPLICATION"], counts["D"])
            + times(c["HORIZONTAL_TRANSFER"], counts["T"])
            + times(c["FULL_LOSS"], counts["L"])
        )

    def rec_cost(self, m, c=None):
        return self.profile_cost(self.rec_profile(m)[1], c)

    def all_mappings(self, restrict_lca=False, no_transfer=False):
        """Every valid species mapping (dict name->name)."""
        if restrict_lca:
            m = self.lca_mapping()
            if self.mapping_valid(m) is None:
                yield m
            return
        base = {l: self.los[l] for l in self.oleaves}
        order = self.ointernal_post

        def rec(i, m):
            if i == len(order):
                yield dict(m)
                return
            n = order[i]
            for s in self.snodes:
                m[n] = s
                ev = self.event(m, n)
                if ev is not None and not (no_transfer and ev[0][0] == "T"):
                    yield from rec(i + 1, m)
            del m[n]

        yield from rec(0, dict(base))

    # full-loss locations (for the diagram properties) ----------------------
    def loss_species(self, m) -> List[str]:
        """Multiset (list) of the species in which a full loss occurs: for a
        speciation the species strictly between the node's species and each
        child's species; for a duplication (both children) and the conserved
        child of a transfer, the species from the child's parent species up
        to and including the node's species."""
        out = []
        for n in self.ointernal_pre:
            k, _ = self.event(m, n)
            l, r = self.ochildren[n]
            x = m[n]
            kids = {"S": (l, r), "D": (l, r), "TL": (l,), "TR": (r,)}[k]
            for c in kids:
                chain = self.anc[m[c]]
                upto = chain.index(x)
                if k == "S":
                    out.extend(chain[1:upto])
                else:
                    out.extend(chain[1 : upto + 1])
        return out


def infer_species(oleaves, snodes):
    """Independent statement of the documented `<species>_<suffix>` rule:
    case-insensitive; the first (shortest) underscore-delimited prefix that
    names a species node wins; a suffix is required."""
    low = {}
    for s in snodes:
        if s:
            low[s.lower()] = s
    out = {}
    for leaf in oleaves:
        parts = leaf.split("_")
        for i in range(1, len(parts)):
            pref = "_".join(parts[:i]).lower()
            if pref in low:
                out[leaf] = low[pref]
                break
    return out


# ---------------------------------------------------------------------------
# Labelling costs on explicit lists / sets
# ---------------------------------------------------------------------------
def is_subseq(child, parent) -> bool:
    it = iter(parent)
    return all(any(x == y for y in it) for x in child)


def lost_runs(child, parent, edges: bool) -> int:
    """Number of maximal runs of `parent` elements missing from `child`
    (child a subsequence of parent, distinct elements).  With edges=False the
    runs touching either end of parent are ignored."""
    cs = set(child)
    flags = [p in cs for p in parent]
    runs = []
    i = 0
    while i < len(flags):
        if not flags[i]:
            j = i
            while j < len(flags) and not flags[j]:
                j += 1
            runs.append((i, j))
            i = j
        else:
            i += 1
    if not edges:
        runs = [(a, b) for a, b in runs if a != 0 and b != len(flags)]
    return len(runs)


def ordered_node_loss(kind, s, sl, sr) -> int:
    if kind == "S":
        return lost_runs(sl, s, True) + lost_runs(sr, s, True)
    if kind == "D":
        return min(
            lost_runs(sl, s, True) + lost_runs(sr, s, False),
            lost_runs(sl, s, False) + lost_runs(sr, s, True),
        )
    if kind == "TL":
        return lost_runs(sl, s, True) + lost_runs(sr, s, False)
    return lost_runs(sl, s, False) + lost_runs(sr, s, True)


def unordered_node_loss(kind, s, sl, sr) -> int:
    s = set(s)
    lc = 0 if s <= set(sl) else 1
    rc = 0 if s <= set(sr) else 1
    if kind == "S":
        return lc + rc
    if kind == "D":
        return min(lc, rc)
    if kind == "TL":
        return lc
    return rc


def labeling_losses(inst: Instance, pattern, lab, ordered: bool) -> int:
    """Number of segmental losses of a labelling under an event pattern
    (pattern indexed like inst.ointernal_pre)."""
    f = ordered_node_loss if ordered else unordered_node_loss
    tot = 0
    for k, n in zip(pattern, inst.ointernal_pre):
        l, r = inst.ochildren[n]
        tot += f(k, lab[n], lab[l], lab[r])
    return tot


def total_cost(inst: Instance, m, lab=None, ordered=True, c=None):
    """(reconciliation cost, labelling cost, total) by the documented model."""
    c = c or inst.c
    pat, counts = inst.rec_profile(m)
    rc = inst.profile_cost(counts, c)
    lc = 0
    if lab is not None:
        lc = times(c["SEGMENTAL_LOSS"], labeling_losses(inst, pat, lab, ordered))
    return rc, lc, rc + lc


# ---------------------------------------------------------------------------
# Validity predicates for labellings
# ---------------------------------------------------------------------------
def families(inst: Instance):
    return sorted({f for l in inst.oleaves for f in inst.lsyn[l]})


def gain_nodes(inst: Instance) -> Dict[str, str]:
    """family -> object node that is the LCA of the leaves carrying it."""
    def path(n):
        out = [n]
        while inst.oparent[out[-1]] is not None:
            out.append(inst.oparent[out[-1]])
        return out

    gain = {}
    for f in families(inst):
        paths = [path(l) for l in inst.oleaves if f in inst.lsyn[l]]
        others = [set(p) for p in paths[1:]]
        gain[f] = next(x for x in paths[0] if all(x in o for o in others))
    return gain


def required_content(inst: Instance, gain=None) -> Dict[str, set]:
    """node -> families on a path from a carrying leaf up to the gain node."""
    gain = gain or gain_nodes(inst)
    req = {n: set() for n in inst.onodes}
    for f, g in gain.items():
        for l in inst.oleaves:
            if f in inst.lsyn[l]:
                x = l
                while True:
                    req[x].add(f)
                    if x == g:
                        break
                    x = inst.oparent[x]
    return req


def check_ordered_labeling(inst: Instance, lab, root_order=None) -> Optional[str]:
    fams = families(inst)
    for n in inst.onodes:
        if n not in lab:
            return f"unlabelled:{n}"
    for l in inst.oleaves:
        if list(lab[l]) != list(inst.lsyn[l]):
            return f"leaf-synteny-changed:{l}"
    root = list(lab[inst.oroot])
    if inst.ochildren[inst.oroot]:
        # every family of the input once: those carried by the leaves and, when the input prescribes a root synteny
        # (any common supersequence of the leaves), those it names as well
        want = sorted(set(fams) | set(root_order or ()))
        if sorted(root) != want or len(set(root)) != len(root):
            return "root-not-every-family-once"
    if root_order is not None and root != list(root_order):
        return "root-not-prescribed"
    for n in inst.onodes:
        p = inst.oparent[n]
        if len(set(lab[n])) != len(lab[n]):
            return f"repeated-family:{n}"
        if p is not None and not is_subseq(list(lab[n]), list(lab[p])):
            return f"not-subsequence:{n}"
    return None


def check_unordered_labeling(inst: Instance, lab) -> Optional[str]:
    gain = gain_nodes(inst)
    for n in inst.onodes:
        if n not in lab:
            return f"unlabelled:{n}"
    for l in inst.oleaves:
        if set(lab[l]) != set(inst.lsyn[l]) or len(lab[l]) != len(set(lab[l])):
            return f"leaf-synteny-changed:{l}"
    for n in inst.onodes:
        if len(set(lab[n])) != len(lab[n]):
            return f"repeated-family:{n}"
        for f in lab[n]:
            if f not in gain:
                return f"unknown-family:{f}@{n}"
            g = gain[f]
            # inside the subtree rooted at the gain node
            x = n
            while x is not None and x != g:
                x = inst.oparent[x]
            if x is None:
                return f"family-outside-gain-subtree:{f}@{n}"
            if n != g and f not in lab[inst.oparent[n]]:
                return f"parent-lacks-family:{f}@{n}"
    return None


# ---------------------------------------------------------------------------
# Enumeration of tree shapes (for bounded-exhaustive layers)
# ---------------------------------------------------------------------------
def plane_binary_shapes(n: int):
    """All plane (ordered) binary tree shapes with n leaves, as nested
    tuples; a leaf is ()."""
    if n == 1:
        return [()]
    out = []
    for k in range(1, n):
        for a in plane_binary_shapes(k):
            for b in plane_binary_shapes(n - k):
                out.append((a, b))
    return out


def shape_newick(shape, leaf_names, internal_prefix=None):
    """Newick of a plane shape with leaves named left-to-right; internal
    nodes named prefix+k in pre-order if a prefix is given."""
    it = iter(leaf_names)
    counter = itertools.count()

    def rec2(sh):
        if sh == ():
            return next(it)
        name = f"{internal_prefix}{next(counter)}" if internal_prefix is not None else ""
        inner = ",".join(rec2(c) for c in sh)
        return "(" + inner + ")" + name

    return rec2(shape) + ";"
