"""C10 - the algorithms agree with each other where their models coincide."""
from .. import gen, pkg
from ..plain import INF, Instance
from ..runner import Result, Violation
from ..solver_common import common_labels

ID = "C10"
LEVEL = "exploration"
LEVEL_TEXT = (
    "Random search with cross-algorithm (differential) oracles, no brute force needed: on inputs up to 10 object leaves / 8 species / 4 families "
    "with coherent costs the seven algorithms are run on the same input and the order relations and equalities stated by the property are "
    "asserted on their optima."
)
LEVEL_NOTE = (
    "Trusted: nothing but the relations themselves; a defect shared by all algorithms is invisible here (C01-C03 cover that with independent "
    "oracles at smaller sizes). Costs inside the coherent region."
)
TECHNIQUE = "property-based testing: Hypothesis random inputs, differential relations between the seven algorithms"
DESIGN_REF = "DESIGN.md section 5 (C10)"
RULE = (
    "Hypothesis cases: binary input, 2..10 object leaves, <=8 species leaves, <=4 families (about 30% of cases measured: the same single family on every leaf; "
    "25%: possibly inconsistent orders), coherent costs.  Policy ANY costs: ext_spfs <= base_spfs, superdtl <= base_uspfs, superdtl <= ext_spfs "
    "and base_uspfs <= base_spfs (when an ordered solution exists), thl <= lca, thl == lca when hgt is infinite; single family: thl == ext_spfs "
    "== superdtl and lca == base_spfs == base_uspfs.  Non-trivial: some relation is strict, or the single-family clause applies with a "
    "non-zero cost; distinct by SHA-1 of the case."
)
ASSUMPTIONS = ["coherent costs", "relations only; no independent optimum at these sizes"]
BUDGET = {"quick": {"random": 2500}, "thorough": {"random": 40000}}


def strategy(tier):
    from hypothesis import strategies as st

    # a third of the cases are deep chains (caterpillars of 5..8 leaves, <=6 species, independent leaf contents in one
    # hidden order): inheritance through three and more consecutive ancestors, where the two models part ways
    return st.one_of(gen.rec_case(max_obj=10, max_sp=8, min_obj=2, costs="coherent", labelled=True, max_fam=4, single_prob=10),
                     gen.rec_case(max_obj=10, max_sp=8, min_obj=2, costs="coherent", labelled=True, max_fam=4, single_prob=10),
                     gen.deep_chain_case(min_obj=5, max_obj=8, max_sp=6, max_fam=4))


def _cost(outs):
    return pkg.pkg_cost(outs[0]) if outs else None


def check(case):
    inst = Instance(case)
    labels = common_labels(inst)
    inp = pkg.make_input(case, labelled=True)
    c = {a: _cost(pkg.run_algo(a, inp, "ANY")) for a in ("lca", "thl", "ext_spfs", "base_spfs", "superdtl", "base_uspfs")}
    fams = {f for l in inst.oleaves for f in inst.lsyn[l]}
    single = len(fams) == 1 and all(len(inst.lsyn[l]) == 1 for l in inst.oleaves)
    strict = False

    def le(a, b):
        nonlocal strict
        if c[a] is None or c[b] is None:
            return
        if not c[a] <= c[b]:
            raise Violation(f"{a}>{b}", observed={a: c[a], b: c[b]}, expected=f"{a} <= {b}")
        if c[a] < c[b]:
            strict = True

    for name in ("lca", "thl", "superdtl", "base_uspfs"):
        if c[name] is None:
            raise Violation(f"{name}.empty", observed=None, expected="a solution")
    if (c["ext_spfs"] is None) != (c["base_spfs"] is None):
        raise Violation("ordered-emptiness-differs", observed={k: c[k] for k in ("ext_spfs", "base_spfs")}, expected="both or neither empty")
    if c["ext_spfs"] is None:
        labels.append("no_ordered_solution")
    le("ext_spfs", "base_spfs")
    le("superdtl", "base_uspfs")
    le("superdtl", "ext_spfs")
    le("base_uspfs", "base_spfs")
    le("thl", "lca")
    if inst.c["HORIZONTAL_TRANSFER"] == INF and c["thl"] != c["lca"]:
        raise Violation("thl!=lca.without-transfers", observed=c["thl"], expected=c["lca"])
    if single:
        labels.append("single_family")
        if not (c["thl"] == c["ext_spfs"] == c["superdtl"]):
            raise Violation("single-family.extended-differ", observed={k: c[k] for k in ("thl", "ext_spfs", "superdtl")}, expected="equal")
        if not (c["lca"] == c["base_spfs"] == c["base_uspfs"]):
            raise Violation("single-family.base-differ", observed={k: c[k] for k in ("lca", "base_spfs", "base_uspfs")}, expected="equal")
    if strict:
        labels.append("strict_relation")
    nontrivial = strict or (single and c["thl"] > 0)
    return Result(nontrivial, labels, evals=6)
