"""Helpers shared by the solver-level properties (C01-C05, C08-C10)."""
from __future__ import annotations

from . import pkg
from .oracles import OracleBug, RecOracle, TooLarge, brute_labelled, canon_solution, dtl_optimum, dtl_profiles
from .plain import (
    INF,
    Instance,
    check_ordered_labeling,
    check_unordered_labeling,
    total_cost,
)
from .runner import HarnessError, Skip, Violation

MODE = {
    "thl": ("plain", False),
    "exh": ("plain", False),
    "lca": ("plain", True),
    "ext_spfs": ("ordered", False),
    "base_spfs": ("ordered", True),
    "superdtl": ("unordered", False),
    "base_uspfs": ("unordered", True),
}

BRUTE_BUDGET = 400_000


def reference(inst: Instance, mode, restrict_lca=False, canonical=False, want_set=True, labels=None):
    """(optimum or None, complete optimal set or None).

    Memoised recursion, cross-checked against plain brute-force enumeration
    whenever the latter fits its budget (a disagreement is a harness error)."""
    try:
        rec = RecOracle(inst, mode, restrict_lca=restrict_lca, canonical=canonical)
        opt = rec.optimum()
        sols = rec.solutions() if want_set else None
    except TooLarge as exc:
        raise Skip(f"oracle_too_large:{exc}") from None
    try:
        if mode == "plain":
            b_opt, b_sols, _ = dtl_optimum(inst, dtl_profiles(inst, restrict_lca=restrict_lca, limit=200_000))
            b_set = {canon_solution(m) for m in b_sols}
        else:
            b_opt, b_set = brute_labelled(
                inst, mode == "ordered", restrict_lca=restrict_lca, canonical=canonical,
                budget=BRUTE_BUDGET, want_set=want_set,
            )
        if b_opt != opt or (want_set and b_set is not None and sols is not None and b_set != sols):
            raise HarnessError(
                f"oracle self-check failed: brute={b_opt} rec={opt} mode={mode} lca={restrict_lca} "
                f"canonical={canonical} case={inst.case}"
            )
        if labels is not None:
            labels.append("oracle=brute+rec")
    except TooLarge:
        if labels is not None:
            labels.append("oracle=rec-only")
    return opt, sols


def validate_output(inst: Instance, out, algo, policy, prescribed_root=None):
    """V-MAP (+ V-ORD / V-UNO), finite cost, package cost == recount.
    Returns (mapping, labelling or None, recount total)."""
    tag = f"{algo}.{policy}"
    mode, _ = MODE[algo]
    m = pkg.mapping_names(out)
    why = inst.mapping_valid(m)
    if why is not None:
        raise Violation(f"{tag}.V-MAP.{why.split(':')[0]}", observed=m, expected="valid reconciliation")
    lab = None
    if mode != "plain":
        lab = pkg.synteny_names(out)
        if bool(out.ordered) != (mode == "ordered"):
            raise Violation(f"{tag}.ordered-flag", observed=out.ordered, expected=(mode == "ordered"))
        if mode == "ordered":
            why = check_ordered_labeling(inst, lab, prescribed_root)
            if why is not None:
                raise Violation(f"{tag}.V-ORD.{why.split(':')[0]}", observed=lab, expected="valid ordered labelling", extra={"why": why})
        else:
            why = check_unordered_labeling(inst, lab)
            if why is not None:
                raise Violation(f"{tag}.V-UNO.{why.split(':')[0]}", observed=lab, expected="valid unordered labelling", extra={"why": why})
    rc, lc, tot = total_cost(inst, m, lab, ordered=(mode == "ordered"))
    if tot == INF:
        raise Violation(f"{tag}.infinite-cost", observed="inf", expected="finite cost", extra={"mapping": m})
    pc = pkg.pkg_cost(out)
    if pc != tot:
        raise Violation(f"{tag}.cost!=recount", observed=pc, expected=tot, extra={"mapping": m, "labelling": lab})
    return m, lab, tot


def prescribed_root_of(inst: Instance):
    if inst.oroot in inst.lsyn and inst.ochildren[inst.oroot]:
        return list(inst.lsyn[inst.oroot])
    return None


def common_labels(inst: Instance, labelled=True):
    c = inst.c
    labels = [f"obj={len(inst.oleaves)}", f"sp={sum(1 for s in inst.snodes if not inst.schildren[s])}"]
    if labelled:
        fams = {f for l in inst.oleaves for f in inst.lsyn[l]}
        labels.append(f"fam={len(fams)}")
        if c["SEGMENTAL_LOSS"] == 0:
            labels.append("sloss=0")
        if c["SPECIATION"] + 2 * c["SEGMENTAL_LOSS"] == c["DUPLICATION"] + 2 * c["FULL_LOSS"]:
            labels.append("region_boundary")
    if c["SPECIATION"] > 0:
        labels.append("spe>0")
    if c["FULL_LOSS"] == 0:
        labels.append("floss=0")
    if c["HORIZONTAL_TRANSFER"] == INF:
        labels.append("hgt=inf")
    if c["HORIZONTAL_TRANSFER"] == 0:
        labels.append("hgt=0")
    used = set(inst.los.values())
    if any(not inst.schildren[s] and s not in used for s in inst.snodes):
        labels.append("empty_species")
    return labels


def solution_features(inst: Instance, sols, mode):
    """labels describing a set of canonical optimal solutions."""
    labels = set()
    eventful = False
    for sol in sols or ():
        ms = sol if mode == "plain" else sol[0]
        m = dict(ms)
        pat, counts = inst.rec_profile(m)
        if counts["T"]:
            labels.add("hgt_used")
        if counts["D"]:
            labels.add("dup_used")
        if counts["L"]:
            labels.add("loss_used")
        if counts["D"] or counts["T"] or counts["L"]:
            eventful = True
        if m != inst.lca_mapping():
            labels.add("non_lca_mapping")
    return sorted(labels), eventful
