"""C14 - layouts are geometrically coherent and orientation-symmetric."""
import math

from .. import render_common as rc
from ..plain import Instance
from ..runner import Result, Violation

ID = "C14"
LEVEL = "exploration"
LEVEL_TEXT = (
    "All valid reconciliations of every small input drawn from shared tree objects, mirror / re-sized variants of the committed witnesses, and "
    "random search over valid reconciliations (as C13; a third on species trees of 6-10 leaves) with node sizes in [1,100] and every numeric drawing parameter perturbed within positive "
    "values: finite coordinates, sibling species boxes disjoint and inside the parent box, pairwise disjoint trunks, every anchor the renderer "
    "dereferences present (rendering must not raise), horizontal layout == mirror image of the vertical layout computed with every node's width and "
    "height exchanged, and two computations on freshly parsed equal inputs give equal layouts."
)
LEVEL_NOTE = (
    "Trusted: the rectangle predicates of this module with tolerance 1e-6 absolute + 1e-9 relative (float32-representable inputs, sums of a few "
    "hundred terms). Not asserted because the property does not claim it: a trunk lying inside its own subtree box."
)
TECHNIQUE = "property-based testing: Hypothesis random reconciliations/sizes/parameters, geometric invariants and a mirror (metamorphic) relation"
DESIGN_REF = "DESIGN.md section 6 (C14)"
EXHAUSTIVE_RULE = {
    "quick": "(a) 36 variants of every committed regression witness of this property (species tree and/or object tree mirrored left-right, sizes kept, "
             "exchanged, minimal or rotated); (b) every plane binary input <=3x3 leaves and a quarter of 4x3: all valid mappings drawn in sequence from "
             "shared tree objects",
    "thorough": "the same",
}
EXHAUSTIVE_COMPLETE = False  # the random layer is not exhaustive
RULE = (
    "Witness-variant and walk layers (see exhaustive_layer).  Hypothesis cases as C13 (<=10 object / <=6 species leaves; a third of the cases 6..10 species leaves, <=12 object leaves, constructed valid mapping, optional labels, 24 sizes in [1,100] by call position, "
    "numeric DrawParams fields perturbed in (0,50]).  Per case, both orientations: all rect/trunk/anchor/branch coordinates finite; for every internal "
    "species the two child rects do not overlap and lie inside the parent's rect; no two trunks overlap; anchors exist for speciation children in the "
    "child layouts, for the kept child of a loss, for duplication/transfer children in the same layout, for transferred children in their species, "
    "and tikz.render does not raise; HORIZONTAL layout with (w,h) of every measured node exchanged == VERTICAL layout with x/y and w/h exchanged "
    "(rect, trunk, fork thickness, anchors, branch rects and branch anchors, in insertion order); a second computation from a freshly parsed input "
    "gives the same numbers.  Non-trivial: >=3 species nodes and >=1 duplication or transfer; distinct by SHA-1 of the case."
)
ASSUMPTIONS = ["positive node sizes and drawing parameters", "tolerance 1e-6 + 1e-9*|x| on coordinates"]
BUDGET = {"quick": {"random": 5000}, "thorough": {"random": 60000}}


def strategy(tier):
    # two thirds as C13; one third on wide species trees (6..10 leaves): trunks can only collide with the trunk of a
    # *cousin* species, which needs >= 5 species (measured on the pre-F9 tree and on variants of its repair: about 5 in
    # 10 000 such layouts against fewer than 1 in 20 000 with <= 6 species)
    from hypothesis import strategies as st

    return st.one_of(rc.render_case(max_obj=10, max_sp=6, max_fam=4), rc.render_case(max_obj=10, max_sp=6, max_fam=4),
                     rc.render_case(max_obj=12, max_sp=10, min_sp=6, max_fam=2))


def exhaustive(tier):
    return [("neigh", 0, 1)] + [("walk", i, 16) for i in range(16)]


def _reflect(newick):
    from ..plain import parse_newick

    t = parse_newick(newick)
    for n in t.nodes():
        t.children[n].reverse()
    return t.to_newick()


def run_job(job):
    kind, idx, mod = job
    if kind == "neigh":
        # symmetric and re-sized variants of every committed regression witness of this property: the left/right (and
        # object child order) mirror images, the sizes rotated / exchanged / all minimal
        from ..runner import load_known, load_replay

        for finding in load_known():
            for wit in finding.get("witnesses", []):
                if ID not in wit["properties"]:
                    continue
                base = load_replay(wit["path"])["case"]
                for rs in (False, True):
                    for ro in (False, True):
                        var = dict(base)
                        if rs:
                            var["species_tree"] = _reflect(base["species_tree"])
                        if ro:
                            var["object_tree"] = _reflect(base["object_tree"])
                        sizes = [list(x) for x in base["_sizes"]]
                        for name, sz in [("same", sizes), ("exchanged", [[h, w] for w, h in sizes]), ("minimal", [[1.0, 1.0]] * len(sizes))] + \
                                        [(f"rotated{k}", sizes[k:] + sizes[:k]) for k in (1, 2, 3, 5, 7, 11)]:
                            yield dict(var, _sizes=sz, _history=False, _variant=f"{finding['id']}:species{'-mirrored' if rs else ''}:objects{'-mirrored' if ro else ''}:sizes-{name}")
        return
    # all valid mappings of small inputs drawn one after the other from shared tree objects (as C13)
    from . import c13

    for case in c13.run_job(("quick", idx, mod)):
        yield case


def strategy_kw(**kw):
    return rc.render_case(**kw)


def close(a, b):
    return abs(a - b) <= 1e-6 + 1e-9 * max(abs(a), abs(b))


def overlap(a, b, eps=1e-6):
    return a.x < b.x + b.w - eps and b.x < a.x + a.w - eps and a.y < b.y + b.h - eps and b.y < a.y + a.h - eps


def inside(a, b, eps=1e-6):
    return a.x >= b.x - eps and a.y >= b.y - eps and a.x + a.w <= b.x + b.w + eps and a.y + a.h <= b.y + b.h + eps


def flat(lay):
    """Orientation-neutral listing of every number of a layout, in insertion order, keyed by names/positions."""
    out = []
    for species, sub in lay.items():
        out.append((f"{species.name}.rect", tuple(sub.rect)))
        out.append((f"{species.name}.trunk", tuple(sub.trunk)))
        out.append((f"{species.name}.fork", (sub.fork_thickness,)))
        for i, (gene, pos) in enumerate(sub.anchors.items()):
            out.append((f"{species.name}.anchor[{i}:{'loss' if rc.is_pseudo(gene) else gene.name}]", tuple(pos)))
        for i, (gene, br) in enumerate(sub.branches.items()):
            key = f"{species.name}.branch[{i}:{'loss' if rc.is_pseudo(gene) else gene.name}]"
            out.append((key + ".kind", (br.kind.name,)))
            out.append((key + ".color", (str(br.color),)))
            out.append((key + ".rect", tuple(br.rect)))
            for f in ("anchor_parent", "anchor_left", "anchor_right", "anchor_child"):
                out.append((key + "." + f, tuple(getattr(br, f))))
    return out


MIRROR_FIELD = {"anchor_left": "anchor_left", "anchor_right": "anchor_right", "anchor_parent": "anchor_parent", "anchor_child": "anchor_child"}


def mirrored(values):
    if len(values) == 4:
        x, y, w, h = values
        return (y, x, h, w)
    if len(values) == 2:
        return (values[1], values[0])
    return values


def check(case):
    base = {k: v for k, v in case.items() if not k.startswith("_")}
    inst = Instance(base, label=False)
    if case.get("_kind") == "walk":
        shared = {}
        n = 0
        nontrivial = False
        for m in inst.all_mappings():
            res = _check_mapping(dict(case, _mapping=m), inst, m, shared)
            nontrivial = nontrivial or res.nontrivial
            n += 1
        return Result(nontrivial, ["walk", f"species={min(len(inst.snodes), 7)}"], evals=4 * n)
    res = _check_mapping(case, inst, case["_mapping"], None)
    if case.get("_variant"):
        res.labels.append("witness_variant")
    return res


def _check_mapping(case, inst, m, shared):
    _pat, counts = inst.rec_profile(m)
    lays = {}
    for orientation, swap in (("VERTICAL", False), ("HORIZONTAL", True)):
        out, lay, _code, _params, _stub = rc.compute(case, orientation, swap=swap, shared=shared)
        tag = orientation.lower()
        lays[orientation] = lay
        for key, vals in flat(lay):
            for v in vals:
                if isinstance(v, (int, float)) and not math.isfinite(v):
                    raise Violation(f"layout.{tag}.non-finite", observed=(key, vals), expected="finite coordinates")
        species = list(lay)
        for sp in species:
            if not sp.is_leaf():
                a, b = sp.children
                if overlap(lay[a].rect, lay[b].rect):
                    raise Violation(f"layout.{tag}.sibling-boxes-overlap", observed=(tuple(lay[a].rect), tuple(lay[b].rect)), expected="disjoint",
                                    extra={"species": sp.name})
                for c in (a, b):
                    if not inside(lay[c].rect, lay[sp].rect):
                        raise Violation(f"layout.{tag}.child-box-outside-parent", observed=tuple(lay[c].rect), expected=tuple(lay[sp].rect),
                                        extra={"species": c.name})
        for i in range(len(species)):
            for j in range(i + 1, len(species)):
                if overlap(lay[species[i]].trunk, lay[species[j]].trunk):
                    raise Violation(f"layout.{tag}.trunks-overlap", observed=(tuple(lay[species[i]].trunk), tuple(lay[species[j]].trunk)),
                                    expected="disjoint", extra={"species": [species[i].name, species[j].name]})
        # anchors referenced by drawn branches
        mapping = out.object_species
        for sp, sub in lay.items():
            kids = sp.children if not sp.is_leaf() else (None, None)
            for gene, br in sub.branches.items():
                kind = rc.branch_kind(br)
                if kind == "LOSS":
                    if br.right is None:
                        ok = kids[0] is not None and br.left in lay[kids[0]].anchors
                    else:
                        ok = kids[1] is not None and br.right in lay[kids[1]].anchors
                elif kind == "S":
                    ok = kids[0] is not None and br.left in lay[kids[0]].anchors and br.right in lay[kids[1]].anchors
                elif kind == "D":
                    ok = br.left in sub.branches and br.right in sub.branches
                elif kind == "T":
                    ok = br.left in sub.branches and br.right in lay[mapping[br.right]].anchors
                else:
                    ok = True
                if not ok:
                    raise Violation(f"layout.{tag}.missing-anchor", observed=kind, expected="every referenced anchor exists",
                                    extra={"species": sp.name})
        # determinism: fresh parse, same numbers
        _o2, lay2, _c2, _p2, _s2 = rc.compute(case, orientation, swap=swap, render=False, history=False)
        f1, f2 = flat(lay), flat(lay2)
        if f1 != f2:
            diff = next((a, b) for a, b in zip(f1, f2) if a != b) if len(f1) == len(f2) else ("length", (len(f1), len(f2)))
            raise Violation(f"layout.{tag}.not-deterministic", observed=diff[1], expected=diff[0])
    fv, fh = flat(lays["VERTICAL"]), flat(lays["HORIZONTAL"])
    if len(fv) != len(fh):
        raise Violation("layout.mirror.structure", observed=len(fh), expected=len(fv))
    for (kv, vv), (kh, vh) in zip(fv, fh):
        if kv != kh:
            raise Violation("layout.mirror.structure", observed=kh, expected=kv)
        want = mirrored(vv)
        if len(want) != len(vh) or not all((a == b) if isinstance(a, str) else close(a, b) for a, b in zip(want, vh)):
            raise Violation("layout.mirror." + kv.split(".")[-1].split("[")[0], observed={"horizontal": vh}, expected={"mirrored_vertical": want},
                            extra={"field": kv})
    labels = [f"labels={case['_label_kind']}", f"species={min(len(inst.snodes), 7)}"]
    if case["_params"]:
        labels.append("params_perturbed")
    return Result(len(inst.snodes) >= 3 and (counts["D"] or counts["T"]), labels, evals=4)
