#!/bin/bash
# tools/seeded_round.sh <srcroot> <suffix> <ID>...   import <srcroot>/<ID>/out/{patch,demo,meta}{1,2,3} as seeded/<ID>-<suffix><k>, then run the target check
cd "$(dirname "$0")/.." || exit 2
root=$1; suf=$2; shift 2
for id in "$@"; do
  for k in 1 2 3; do
    [ -f "$root/$id/out/patch$k.diff" ] || { echo "$id k=$k: no patch"; continue; }
    name="$id-$suf$k"
    python3 tools/seeded.py import "$root/$id/out" $k "$name" 2>&1 | tail -1
    [ -d "seeded/$name" ] && python3 tools/seeded.py run "$name" 2>&1 | tail -1
    [ -d "seeded/$name" ] && grep -h '^+++ ' "seeded/$name/patch.diff" | tr '\n' ' ' && echo
  done
done
