#!/bin/bash
# MANIFEST.setup_cmd: make hypothesis (random tiers) and atheris (coverage-guided tier) importable for
# /venv/bin/python, offline, from the wheelhouse; both go to /verif/.deps unless already importable.
cd "$(dirname "$0")" || exit 1
PY=/venv/bin/python
export PYTHONPATH="/repo/src:$PWD/.deps:$PWD"
for pkg in hypothesis atheris; do
  if $PY -c "import $pkg" >/dev/null 2>&1; then
    echo "$pkg already importable"
  else
    /venv/bin/pip install --no-index --find-links /opt/veriftools/wheels --target "$PWD/.deps" $pkg || exit 1
  fi
done
$PY -c "import hypothesis, atheris, superrec2, harness.runner; print('setup ok: hypothesis', hypothesis.__version__)"
