"""C11 - serialised results read back to the same reconciliation."""
import json

from hypothesis import strategies as st

from .. import gen, pkg
from ..plain import INF, Instance, from_ete, parse_newick, total_cost
from ..runner import Result, Violation

ID = "C11"
LEVEL = "exploration"
LEVEL_TEXT = (
    "Round-trip property over random inputs and solutions: objects of the four model classes (inputs, plain and labelled outputs; both solver "
    "outputs and randomly constructed valid reconciliations on trees up to 8 leaves with random names over letters, digits and underscores, NHX "
    "colours on arbitrary nodes, free costs with a float-infinite transfer cost) are converted to a dictionary, passed through JSON text, parsed "
    "back and compared field by field with the harness's own tree walker; serialising again must reproduce the dictionary verbatim."
)
LEVEL_NOTE = (
    "Trusted: the harness's Newick parser and attribute walker, Python's json module. Node names are unique per tree, non-empty and not 'NoName' "
    "(the property's precondition); colours are 6 hex digits."
)
TECHNIQUE = "property-based testing: Hypothesis round-trip (to_dict -> JSON -> from_dict -> to_dict) with field-level comparison by an independent walker"
DESIGN_REF = "DESIGN.md section 6 (C11)"
RULE = (
    "Hypothesis cases: binary trees up to 8 object / 8 species leaves, random unique node names over [A-Za-z0-9_]{1,8}, a colour on about a third of "
    "the nodes of both trees, <=4 families, free costs (hgt possibly float inf), one constructed valid mapping, one valid ordered and one valid "
    "unordered labelling; kind drawn from: ReconciliationInput, SuperReconciliationInput, ReconciliationOutput, SuperReconciliationOutput "
    "(ordered / unordered, unordered labels given as lists or sets), or the outputs of a drawn solver on the same input.  Checked: trees "
    "(topology, child order, names, colours) of the parsed-back object == those of the original object == those written in the dictionary; leaf "
    "assignment, costs, species mapping, syntenies, ordered flag equal; events and recounted cost of both objects equal and equal to the package "
    "cost; to_dict of the parsed-back object == first dictionary.  Non-trivial: a colour, an infinite cost or a labelled output is involved and "
    "the object tree has >=2 leaves; distinct by SHA-1 of the case."
    '  Also: ancestral objects named like leaves of a species, misleading leaf names, alternative family names (digit-leading, natural/string order differing), colour strings that are not six hex digits, the prescribed-root entry of leaf_syntenies in SuperReconciliationInput round trips.'
)
ASSUMPTIONS = ["unique non-empty node names over letters, digits, underscores; not 'NoName'", "costs are ints or float('inf')"]
BUDGET = {"quick": {"random": 2500}, "thorough": {"random": 40000}}
KINDS = ["SRO_ordered", "SRO_unordered", "solver", "SRO_unordered_sets", "RO", "SRI", "RI"]


@st.composite
def _case(draw):
    case = draw(gen.drawn_reconciliation(max_obj=8, max_sp=8, max_fam=4, costs="free"))
    case["_kind"] = draw(st.sampled_from(KINDS))
    if case["_kind"] == "solver":
        case["_algo"] = draw(st.sampled_from(list(pkg.ALGOS)))
    # the optional entry of leaf_syntenies for the root of the object tree (a prescribed root order)
    case["_proot"] = draw(st.booleans())
    case["_alt_fams"] = draw(st.booleans())
    # colour values are strings as far as (de)serialisation goes: short hex, named, upper/lower case all come back verbatim
    case["_odd_colours"] = gen.chance(draw, 1, 3)
    if case["_kind"] in ("RI", "SRI") and gen.chance(draw, 1, 3):
        # inputs need not be binary, and species names may be prefixes of one another: a second input of that sort
        poly = draw(gen.rec_case(max_obj=7, max_sp=6, min_obj=3, costs="free", labelled=True, max_fam=4, obj_poly=draw(st.integers(0, 2)),
                                 sp_poly=draw(st.integers(0, 1)), allow_inconsistent=False, misleading=True))
        if draw(st.booleans()):
            poly = gen.respell_species(poly, draw(st.sampled_from(["prefix-nested", "case-twins"])))
        poly.update({k: v for k, v in case.items() if k.startswith("_") and k not in ("_mapping", "_lab_o", "_lab_u", "_proot")})
        poly["_proot"] = False
        poly["_polytomous_input"] = True
        return poly
    return case


def strategy(tier):
    return _case()


def _plain_costs(costs):
    return {k.name: (INF if v == INF else v) for k, v in costs.items()}


def _snapshot_input(inp):
    snap = {
        "object_tree": from_ete(inp.object_tree).shape(),
        "species_tree": from_ete(inp.species_lca.tree).shape(),
        "leaf_object_species": {k.name: v.name for k, v in inp.leaf_object_species.items()},
        "costs": _plain_costs(inp.costs),
    }
    if hasattr(inp, "leaf_syntenies"):
        snap["leaf_syntenies"] = {k.name: list(v) for k, v in inp.leaf_syntenies.items()}
    return snap


def _snapshot(obj):
    if hasattr(obj, "object_species"):
        inp = _snapshot_input(obj.input)
        # The leaf syntenies stored in the *input of an output* are not among the fields the property lists
        # (they are repeated in the output's own synteny labelling, which is compared); the package parses the
        # input of an output as a plain reconciliation input and drops them (observation O7 in DESIGN.md).
        inp.pop("leaf_syntenies", None)
        snap = {"input": inp, "object_species": {k.name: v.name for k, v in obj.object_species.items()}}
        if hasattr(obj, "syntenies"):
            snap["ordered"] = bool(obj.ordered)
            if obj.ordered:
                snap["syntenies"] = {k.name: list(v) for k, v in obj.syntenies.items()}
            else:
                snap["syntenies"] = {k.name: sorted(v) for k, v in obj.syntenies.items()}
        return snap
    return _snapshot_input(obj)


def _dict_view(d):
    """the same fields read from the serialised dictionary with the harness parser"""
    if "object_species" in d:
        inp = _dict_view(d["input"])
        inp.pop("leaf_syntenies", None)
        out = {"input": inp, "object_species": dict(d["object_species"])}
        if "syntenies" in d:
            out["ordered"] = bool(d["ordered"])
            out["syntenies"] = {k: (list(v) if d["ordered"] else sorted(v)) for k, v in d["syntenies"].items()}
        return out
    out = {
        "object_tree": parse_newick(d["object_tree"]).shape(),
        "species_tree": parse_newick(d["species_tree"]).shape(),
        "leaf_object_species": dict(d["leaf_object_species"]),
        "costs": {k: (INF if v == INF else v) for k, v in d["costs"].items()},
    }
    if "leaf_syntenies" in d:
        out["leaf_syntenies"] = {k: list(v) for k, v in d["leaf_syntenies"].items()}
    return out


def _first_diff(a, b, path=""):
    if isinstance(a, dict) and isinstance(b, dict):
        for k in sorted(set(a) | set(b), key=str):
            if k not in a or k not in b:
                return f"{path}.{k}"
            d = _first_diff(a[k], b[k], f"{path}.{k}")
            if d:
                return d
        return None
    return None if a == b else (path or ".")


def roundtrip(obj, cls, tag):
    d1 = pkg.guarded(obj.to_dict)
    try:
        text = json.dumps(d1)
    except (TypeError, ValueError) as exc:
        raise Violation(f"{tag}.not-json-serialisable", observed=repr(exc), expected="JSON text")
    back = pkg.guarded(cls.from_dict, json.loads(text))
    s_obj, s_back, s_dict = _snapshot(obj), _snapshot(back), _dict_view(d1)
    diff = _first_diff(s_obj, s_dict)
    if diff:
        raise Violation(f"roundtrip.dict-differs-from-object{_field(diff)}", observed=str(s_dict)[:400], expected=str(s_obj)[:400])
    diff = _first_diff(s_obj, s_back)
    if diff:
        raise Violation(f"roundtrip.parsed-back-differs{_field(diff)}", observed=str(s_back)[:400], expected=str(s_obj)[:400])
    d2 = pkg.guarded(back.to_dict)
    if "object_species" in d1:
        # compare the listed fields verbatim (see _snapshot about input.leaf_syntenies of outputs)
        d1c = dict(d1, input={k: v for k, v in d1["input"].items() if k != "leaf_syntenies"})
        d2c = dict(d2, input={k: v for k, v in d2["input"].items() if k != "leaf_syntenies"})
    else:
        d1c, d2c = d1, d2
    if d2c != d1c:
        raise Violation(f"roundtrip.second-dict-differs{_field(_first_diff(d1c, d2c) or '.')}", observed=str(d2c)[:400], expected=str(d1c)[:400])
    return back, d1


def _field(path):
    parts = [p for p in path.split(".") if p]
    keep = [p for p in parts if p in ("input", "object_tree", "species_tree", "leaf_object_species", "costs", "leaf_syntenies",
                                      "object_species", "syntenies", "ordered")]
    return "." + ".".join(keep) if keep else ""


def _events_and_cost(inst, out, labelled, ordered):
    m = pkg.mapping_names(out)
    lab = pkg.synteny_names(out) if labelled else None
    events = {n: (inst.event(m, n)[0] if inst.ochildren[n] else "LEAF") for n in inst.onodes}
    return events, total_cost(inst, m, lab, ordered)[2]


def check(case):
    from superrec2.model.reconciliation import (
        ReconciliationInput, ReconciliationOutput, SuperReconciliationInput, SuperReconciliationOutput,
    )

    kind = case["_kind"]
    if case.get("_alt_fams"):
        # family names whose natural-sort, string-sort and case orders differ, digit-leading ones included
        fams0 = sorted({f for v in case["leaf_syntenies"].values() for f in v})
        if all(f[:1] == "g" and f[1:].isdigit() for f in fams0):
            case = gen.rename_families(case, gen.alt_family_map(fams0, salt=len(case["object_tree"])))
    base = {k: v for k, v in case.items() if not k.startswith("_")}
    if case.get("_odd_colours"):
        odd = ["f80", "F80", "red", "0af", "000", "fff", "DarkOliveGreen", "00ff0"]
        for key in ("object_tree", "species_tree"):
            t = parse_newick(base[key])
            for n in t.nodes():
                if "color" in t.features[n]:
                    t.features[n]["color"] = odd[(n + len(base[key])) % len(odd)]
            base[key] = t.to_newick()
    inst = Instance(base, label=False)
    labels = [f"kind={kind}", f"obj={len(inst.oleaves)}"]
    coloured = "color=" in base["object_tree"] or "color=" in base["species_tree"]
    infinite = base["costs"]["HORIZONTAL_TRANSFER"] == INF
    if coloured:
        labels.append("colour")
    if infinite:
        labels.append("hgt=inf")
    evals = 1
    if kind in ("RI", "SRI"):
        cls = ReconciliationInput if kind == "RI" else SuperReconciliationInput
        data = dict(base)
        if kind == "RI":
            data.pop("leaf_syntenies", None)
        elif case.get("_proot") and inst.ochildren[inst.oroot]:
            data["leaf_syntenies"] = dict(data["leaf_syntenies"], **{inst.oroot: list(case["_lab_o"][inst.oroot])})
            labels.append("prescribed_root")
        obj = pkg.guarded(cls.from_dict, data)
        # the object must first of all reflect the documented-format case itself
        diff = _first_diff(_dict_view(dict(data)), _snapshot(obj))
        if diff:
            raise Violation(f"from_dict.differs-from-source{_field(diff)}", observed=str(_snapshot(obj))[:400], expected=str(data)[:400])
        roundtrip(obj, cls, kind)
    else:
        labelled_input = kind != "RO"
        inp = pkg.guarded((SuperReconciliationInput if labelled_input else ReconciliationInput).from_dict,
                          base if labelled_input else {k: v for k, v in base.items() if k != "leaf_syntenies"})
        onode = {n.name: n for n in inp.object_tree.traverse()}
        snode = {n.name: n for n in inp.species_lca.tree.traverse()}
        outs = []
        if kind == "solver":
            algo = case["_algo"]
            needs_syn = pkg.ALGOS[algo][1]
            sinp = inp if needs_syn else pkg.guarded(ReconciliationInput.from_dict, {k: v for k, v in base.items() if k != "leaf_syntenies"})
            got = pkg.run_algo(algo, sinp, "ALL")
            got = sorted(got, key=lambda o: repr(pkg.canon_output(o)))[:20]
            outs = [(o, SuperReconciliationOutput if needs_syn else ReconciliationOutput, needs_syn) for o in got]
            labels.append(f"algo={algo}")
        else:
            mo = {onode[k]: snode[v] for k, v in case["_mapping"].items()}
            if kind == "RO":
                outs = [(ReconciliationOutput(inp, mo), ReconciliationOutput, False)]
            else:
                ordered = kind == "SRO_ordered"
                lab = case["_lab_o"] if ordered else case["_lab_u"]
                conv = set if kind == "SRO_unordered_sets" else list
                syn = {onode[k]: conv(v) for k, v in lab.items()}
                outs = [(SuperReconciliationOutput(input=inp, object_species=mo, syntenies=syn, ordered=ordered),
                         SuperReconciliationOutput, True)]
        for out, cls, labelled in outs:
            evals += 1
            back, _d1 = roundtrip(out, cls, kind)
            ordered = bool(getattr(out, "ordered", True))
            ev1, c1 = _events_and_cost(inst, out, labelled, ordered)
            ev2, c2 = _events_and_cost(inst, back, labelled, ordered)
            if ev1 != ev2:
                raise Violation("roundtrip.events-differ", observed=ev2, expected=ev1)
            p1, p2 = pkg.pkg_cost(out), pkg.pkg_cost(back)
            if not (c1 == c2 == p1 == p2):
                raise Violation("roundtrip.cost-differs", observed={"recount_back": c2, "pkg": p1, "pkg_back": p2}, expected=c1)
    nontrivial = len(inst.oleaves) >= 2 and (coloured or infinite or kind.startswith("SRO") or kind == "solver")
    return Result(nontrivial, labels, evals=evals)
