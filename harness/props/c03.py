"""C03 - unordered super-reconciliation (SuperDTL) returns a minimum-cost solution."""
from hypothesis import strategies as st

from .. import gen, pkg
from ..plain import INF, Instance, gain_nodes, labeling_losses
from ..runner import Result, Violation
from ..solver_common import maybe_alt_families, common_labels, reference, solution_features, validate_output

ID = "C03"
LEVEL = "exploration"
LEVEL_TEXT = (
    "Bounded-exhaustive (all inputs <=3-4x3 leaves, <=2-3 families, cost grid) plus random search (Hypothesis, 16 seeded shards) against an independent optimum over all species mappings x ALL family-set "
    "labellings between required content and gain-allowed content (not only the solver's two canonical choices): finds wrong optima, "
    "invalid labellings, exceptions and decode-time mutation of shared sets within <=6 object leaves, <=4 species leaves, <=5 families."
)
LEVEL_NOTE = (
    "Trusted: harness/plain.py, harness/oracles.py (recursion cross-checked by enumeration per case), Hypothesis. Costs inside "
    "spe + 2*sloss <= dup + 2*floss. Leaf syntenies non-empty; no synteny prescribed for the root (undocumented for unordered solvers)."
)
TECHNIQUE = "property-based testing: bounded-exhaustive + Hypothesis random inputs vs brute-force/recursive unordered super-reconciliation oracle"
DESIGN_REF = "DESIGN.md section 5 (C03), 4.4, 4.7"
RULE = (
    "Bounded-exhaustive layer (see exhaustive_layer) + Hypothesis cases: binary object tree (<=6 leaves; thorough <=8), species tree (<=4 leaves; thorough <=6), leaf assignment, <=5 families, each leaf a "
    "non-empty family set, coherent costs; three quarters of the random cases are deep chains (caterpillar of 6..8 leaves over <=3 species, 3..5 families, independent leaf contents) and one in 48 has 7..10 object / 3..8 species leaves - both decided by the memoised-recursion oracle under policy ANY.  Checked: usreconcile_extended_uspfs (ALL, ANY) cost == optimum over all mappings x all "
    "labellings in which each family is gained once at the LCA of its carriers; usreconcile_base_uspfs == optimum with the LCA mapping; "
    "outputs valid (V-MAP, V-UNO), package cost == recount; the gain/required sets computed from the input are equal before and after "
    "solving.  Non-trivial: >=4 object leaves, some family gained strictly below the root and some optimal solution charges a "
    "segmental loss or uses a non-LCA mapping; distinct by SHA-1 of the case."
)
ASSUMPTIONS = [
    "costs inside the coherent region spe + 2*sloss <= dup + 2*floss",
    "non-empty leaf syntenies; family order inside a leaf irrelevant",
    "reference oracles of harness/oracles.py",
]
BUDGET = {"quick": {"random": 16000}, "thorough": {"random": 120000}}
FUZZ = {"thorough": {"runs": 20000, "max_time": 900}}
EXHAUSTIVE_RULE = {
    "quick": "every plane binary object shape <=3 leaves x species shape <=3 leaves x leaf assignment x every assignment of a non-empty family "
             "subset over <=2 families to each leaf, each with 4 of the 141 cost vectors of {0,1,2}^4 x hgt {0,1,inf} inside the region (rotating "
             "residues: every vector meets 1/35 of the inputs)",
    "thorough": "object <=4 x species <=3 leaves x <=2 families (75 078 inputs) with 8 vectors each, plus object <=3 x species <=3 leaves x 3 families with 16 vectors each",
}
EXHAUSTIVE_COMPLETE = False  # the random layer is not exhaustive


@st.composite
def _with_large(draw, small):
    pick = draw(st.sampled_from(["small"] * 10 + ["chain"] * 37 + ["large"]))
    if pick == "large":
        # beyond plain enumeration: 7..10 object leaves, 3..8 species leaves, policy ANY, decided by the recursion oracle
        case = draw(gen.rec_case(max_obj=10, max_sp=8, min_obj=7, min_sp=3, costs="coherent", labelled=True, max_fam=5, allow_inconsistent=False))
        case["_large"] = True
        return case
    if pick == "chain":
        # a chain of 5..7 nested ancestors over <=3 species, 3..5 families with independent leaf contents (cheap: 2 ms a
        # case; inheritance through three and more consecutive ancestors shows in about 1 such case in 600 only)
        case = draw(gen.deep_chain_case(min_obj=6, max_obj=8, max_sp=3, max_fam=5))
        case["_chain"] = True
        case["_large"] = True
        return case
    return draw(small)


def strategy_kw(**kw):
    @st.composite
    def only(draw):
        case = draw(gen.deep_chain_case(**kw))
        case["_large"] = True
        case["_chain"] = True
        return case
    return only()


def strategy(tier):
    if tier == "quick":
        return _with_large(gen.rec_case(max_obj=6, max_sp=4, min_obj=1, costs="coherent", labelled=True, max_fam=5, allow_inconsistent=False))
    if tier == "thorough":
        return _with_large(gen.rec_case(max_obj=8, max_sp=6, min_obj=1, costs="coherent", labelled=True, max_fam=5,
                                        allow_inconsistent=False))
    return gen.rec_case(max_obj=6, max_sp=4, min_obj=1, costs="coherent", labelled=True, max_fam=5,
                        allow_inconsistent=False)


def exhaustive(tier):
    if tier == "quick":
        return [("a", i, 32, 35) for i in range(32)]
    return [("b", i, 64, 17) for i in range(64)] + [("c", i, 64, 9) for i in range(64)]


def run_job(job):
    layer, idx, mod, stride = job
    grid = list(gen.cost_grid((0, 1, 2), (0, 1, INF), labelled=True))
    sizes = {"a": (3, 3, 2), "b": (4, 3, 2), "c": (3, 3, 3)}[layer]
    for k, base in enumerate(gen.all_labelled_inputs(*sizes, ordered=False)):
        if k % mod != idx:
            continue
        if layer == "c" and len({f for s in base["leaf_syntenies"].values() for f in s}) < 3:
            continue  # <=2 families are part of layer b
        for j, c in enumerate(grid):
            if (k * 7 + j) % stride == 0:
                case = dict(base)
                case["costs"] = c
                yield case


def _helper_sets(inp):
    from superrec2.compute.unordered_super_reconciliation import _compute_gain_sets, _compute_lca_sets

    gains = _compute_gain_sets(inp)
    lcas = _compute_lca_sets(inp, gains)
    return (
        {k.name: sorted(v) for k, v in gains.items()},
        {k.name: sorted(v) for k, v in lcas.items()},
    )


def check(case):
    case = maybe_alt_families(case)
    inst = Instance(case)
    labels = common_labels(inst)
    large = bool(case.get("_large"))
    if not large and len(inst.oleaves) > 5 and (inst.c["SEGMENTAL_LOSS"] == 0 or (inst.c["FULL_LOSS"] == 0 and inst.c["HORIZONTAL_TRANSFER"] == 0)):
        # above 5 leaves (thorough tier) free labellings or free losses and transfers make the ALL sets explode (millions of
        # co-optimal solutions): those cases are decided on costs under policy ANY, like the large class
        large = True
        labels.append("ALL_skipped_free_costs")
    if large:
        labels.append("deep_chain" if case.get("_chain") else "large")
    opt_ext, set_ext = reference(inst, "unordered", labels=labels, want_set=not large)
    opt_base, _ = reference(inst, "unordered", restrict_lca=True, want_set=False)
    inp = pkg.make_input(case, labelled=True)
    before = pkg.guarded(_helper_sets, inp)
    for algo, opt in (("superdtl", opt_ext), ("base_uspfs", opt_base)):
        for policy in ("ANY",) if large else ("ALL", "ANY"):
            outs = pkg.run_algo(algo, inp, policy)
            if opt is None:
                raise Violation("oracle.no-solution", observed=None, expected="an unordered solution always exists")
            if not outs:
                raise Violation(f"{algo}.{policy}.empty", observed=0, expected=f"solutions of cost {opt}")
            for out in outs:
                _m, _lab, tot = validate_output(inst, out, algo, policy)
                if tot != opt:
                    raise Violation(f"{algo}.{policy}.cost!=oracle_min", observed=tot, expected=opt,
                                    extra={"mapping": _m, "labelling": _lab})
    after = pkg.guarded(_helper_sets, inp)
    if before != after:
        raise Violation("helper-sets-changed-by-solving", observed=after, expected=before)
    feats, eventful = solution_features(inst, set_ext, "unordered")
    labels += feats
    gain = gain_nodes(inst)
    below_root = any(g != inst.oroot for g in gain.values())
    if below_root:
        labels.append("gain_below_root")
    seg = False
    for sol in set_ext or ():
        m = dict(sol[0]); lab = {k: list(v) for k, v in sol[1]}
        pat, _ = inst.rec_profile(m)
        if labeling_losses(inst, pat, lab, False):
            seg = True
            break
    if seg:
        labels.append("segmental_loss_in_optimum")
    nontrivial = len(inst.oleaves) >= 4 and below_root and (seg or "non_lca_mapping" in feats)
    return Result(nontrivial, labels, evals=4)
