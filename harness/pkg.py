"""Adapter to the package under test (the only harness module, with stubs.py
and the property modules, that imports superrec2)."""
from __future__ import annotations

import contextlib
import io
import os
import traceback

os.environ.setdefault("TQDM_DISABLE", "1")

from infinity import inf as INFINITY  # noqa: E402

from superrec2.compute.exhaustive import generate_all, reconcile_exhaustive  # noqa: E402
from superrec2.compute.reconciliation import reconcile_lca, reconcile_thl  # noqa: E402
from superrec2.compute.super_reconciliation import (  # noqa: E402
    sreconcile_base_spfs,
    sreconcile_extended_spfs,
)
from superrec2.compute.unordered_super_reconciliation import (  # noqa: E402
    usreconcile_base_uspfs,
    usreconcile_extended_uspfs,
)
from superrec2.model.reconciliation import (  # noqa: E402
    NodeEvent,
    ReconciliationInput,
    ReconciliationOutput,
    SuperReconciliationInput,
    SuperReconciliationOutput,
)
from superrec2.utils.dynamic_programming import RetentionPolicy  # noqa: E402

from .plain import INF  # noqa: E402
from .runner import Violation  # noqa: E402

ALGOS = {
    "lca": (reconcile_lca, False, None),
    "thl": (reconcile_thl, False, None),
    "exh": (reconcile_exhaustive, False, None),
    "base_spfs": (sreconcile_base_spfs, True, True),
    "ext_spfs": (sreconcile_extended_spfs, True, True),
    "base_uspfs": (usreconcile_base_uspfs, True, False),
    "superdtl": (usreconcile_extended_uspfs, True, False),
}
POLICY = {"ANY": RetentionPolicy.ANY, "ALL": RetentionPolicy.ALL}
EVENT_KIND = {
    NodeEvent.LEAF: "LEAF",
    NodeEvent.INVALID: "INVALID",
    NodeEvent.SPECIATION: "S",
    NodeEvent.DUPLICATION: "D",
    NodeEvent.HORIZONTAL_TRANSFER: "T",
}


def _pkg_frame(tb):
    """innermost traceback frame located in the package."""
    where = None
    for fs in traceback.extract_tb(tb):
        if "superrec2" in fs.filename.replace("\\", "/"):
            where = f"{os.path.basename(fs.filename)}:{fs.name}"
    return where


def guarded(fn, *args, **kwargs):
    """Call package code; an exception escaping from a package frame is a
    violation (clause exception.<Type>@<file:function>), anything else
    propagates as a harness error."""
    try:
        with contextlib.redirect_stderr(io.StringIO()):
            return fn(*args, **kwargs)
    except (Violation, KeyboardInterrupt, MemoryError):
        raise
    except Exception as exc:
        where = _pkg_frame(exc.__traceback__)
        if where is None:
            raise
        raise Violation(
            f"exception.{type(exc).__name__}@{where}",
            observed=repr(exc)[:300],
            expected="no exception on a well-formed input",
        ) from None


def use_infinity_object(case) -> bool:
    """Deterministic choice between infinity.inf and float('inf') for an
    infinite transfer cost handed to library calls (both appear)."""
    c = case.get("costs") or {}
    finite = [v for v in c.values() if v != INF]
    return sum(finite) % 2 == 0


def lib_case(case):
    """The dictionary handed to from_dict (costs possibly using infinity.inf)."""
    d = {k: v for k, v in case.items() if not k.startswith("_")}
    if sum(map(ord, d.get("object_tree", ""))) % 3 == 0:
        # Newick strings may carry branch lengths: they are data of the trees, not part of the reconciliation model
        # (every count is in edges), so a third of the inputs get some
        from .plain import parse_newick

        for key in ("object_tree", "species_tree"):
            if key in d:
                d[key] = parse_newick(d[key]).to_newick(lengths=[2.5, 0, 1, 0.125, 7])
    if "costs" in d:
        costs = dict(d["costs"])
        if use_infinity_object(case):
            costs = {k: (INFINITY if v == INF else v) for k, v in costs.items()}
        d["costs"] = costs
    return d


def make_input(case, labelled=None, label=True):
    if labelled is None:
        labelled = "leaf_syntenies" in case
    cls = SuperReconciliationInput if labelled else ReconciliationInput
    inp = guarded(cls.from_dict, lib_case(case))
    if label:
        guarded(inp.label_internal)
    return inp


def run_algo(name, inp, policy="ALL"):
    fn, _needs_syn, _ordered = ALGOS[name]
    if name == "lca":
        return [guarded(fn, inp)]
    out = guarded(fn, inp, POLICY[policy])
    return list(out)


def mapping_names(out):
    return {k.name: v.name for k, v in out.object_species.items()}


def synteny_names(out):
    return {k.name: list(v) for k, v in out.syntenies.items()}


def canon_output(out, labelled=None, ordered=None):
    """Canonical plain form keyed by node names (same form as
    oracles.canon_solution)."""
    ms = tuple(sorted(mapping_names(out).items()))
    if labelled is None:
        labelled = isinstance(out, SuperReconciliationOutput)
    if not labelled:
        return ms
    if ordered is None:
        ordered = out.ordered
    if ordered:
        ls = tuple(sorted((k, tuple(v)) for k, v in synteny_names(out).items()))
    else:
        ls = tuple(sorted((k, tuple(sorted(v))) for k, v in synteny_names(out).items()))
    return (ms, ls)


def pkg_cost(out):
    c = guarded(out.cost)
    return INF if c == INF else c


def mapping_names_by_clade(out, inst):
    """Species mapping of an output expressed with the harness's node names, read through clades
    (for inputs whose ancestral nodes are unnamed or share a name)."""
    oname = {inst.O.clade(n): inst.O.name[n] for n in inst.O.nodes()}
    sname = {inst.S.clade(n): inst.S.name[n] for n in inst.S.nodes()}
    return {oname[frozenset(k.get_leaf_names())]: sname[frozenset(v.get_leaf_names())] for k, v in out.object_species.items()}


def strip_ancestor_names(case):
    """Same input with unnamed ancestral nodes in both trees (legal through the Python API)."""
    from .plain import parse_newick

    out = dict(case)
    for key in ("object_tree", "species_tree"):
        t = parse_newick(case[key])
        for n in t.nodes():
            if not t.is_leaf(n):
                t.name[n] = ""
        out[key] = t.to_newick()
    return out
