#!/usr/bin/env python3
"""Rewrites the table of Appendix C in DESIGN.md from seeded/*/meta.json."""
import glob, json, os, re
V = os.path.dirname(os.path.dirname(os.path.abspath(__file__)))
rows = []
for f in sorted(glob.glob(os.path.join(V, "seeded", "*", "meta.json"))):
    m = json.load(open(f))
    checks = m.get("checks", {})
    caught = [f"{p} ({v['clause'].replace('clause=', '')[:60]})" for p, v in sorted(checks.items()) if v["exit"] == 1]
    missed = [p for p, v in sorted(checks.items()) if v["exit"] == 0]
    errs = [p for p, v in sorted(checks.items()) if v["exit"] not in (0, 1)]
    def cell(x):
        return str(x).replace("|", "\\|").replace("\n", " ")
    rows.append(f"| {m['id']} | {m['property']} | {cell(m.get('summary',''))[:230]} | {cell(m.get('needs',''))[:230]} | {'; '.join(caught) or '-'} | {', '.join(missed) or '-'}{(' errors: ' + ','.join(errs)) if errs else ''} | {cell(m.get('strengthening') or m.get('note') or '-')} |")
table = "| id | targets | change | needs to manifest | caught by (clause) | ran clean | missed at first; what was strengthened |\n|---|---|---|---|---|---|---|\n" + "\n".join(rows)
n = len(rows)
caught_n = sum(1 for f in glob.glob(os.path.join(V, "seeded", "*", "meta.json")) if json.load(open(f)).get("caught_by"))
first_missed = sum(1 for f in glob.glob(os.path.join(V, "seeded", "*", "meta.json")) if json.load(open(f)).get("strengthening"))
summary = f"\n{n} changes kept; {caught_n} are caught by at least one registered check in the quick tier (seed 1); {first_missed} of them were missed by their target check when first run and led to the strengthening named in the last column.\n\n"
p = os.path.join(V, "DESIGN.md")
s = open(p).read()
block = "<!-- SEEDED-TABLE-BEGIN -->" + summary + table + "\n<!-- SEEDED-TABLE-END -->"
s = re.sub(r"<!-- SEEDED-TABLE-BEGIN -->.*<!-- SEEDED-TABLE-END -->", lambda _m: block, s, flags=re.S)
open(p, "w").write(s)
print(summary.strip())
