#!/bin/bash
# tools/run_all.sh [tier] [seed...]  -- runs every registered check, prints one line per (seed, check)
cd "$(dirname "$0")/.." || exit 2
TIER=${1:-quick}; shift
SEEDS=${*:-1}
for seed in $SEEDS; do
  for id in $(python3 -c "import json; print(' '.join(c['property_id'] for c in json.load(open('MANIFEST.json'))['checks']))"); do
    start=$(date +%s)
    out=$(VERIF_SEED=$seed ./vcheck $id --tier $TIER 2>&1); code=$?
    echo "seed=$seed $id exit=$code $(( $(date +%s) - start ))s $(echo "$out" | grep -E '^(VIOLATION|KNOWN-FINDING|HARNESS|INCONCLUSIVE)' | head -3 | tr '\n' ' ')"
    if [ $code -ne 0 ]; then echo "$out" | tail -15; fi
  done
done
