"""Byte-level decoder for the harness's Hypothesis strategies.

`hypothesis.fuzz_one_input` rejects almost every byte string for strategies
with dozens of bounded draws (each bounded draw may reject; measured: 0 valid
cases in 20 000 executions for C16), so coverage-guided fuzzing gets no
signal.  This module interprets the *same strategy objects* over an
atheris.FuzzedDataProvider, which never rejects: every byte string decodes to
a case of the strategy's domain (soundness of the generator is inherited from
the strategy definitions, which are shared with the random tier).

Only the strategy kinds used by harness/gen.py and the property modules are
supported (Hypothesis 6.168 internals).
"""
from hypothesis.strategies._internal.lazy import LazyStrategy


class Reject(Exception):
    pass


class FdpDraw:
    def __init__(self, fdp):
        self.fdp = fdp

    def __call__(self, strategy, label=None):
        return self.draw(strategy)

    def int_in(self, lo, hi):
        if hi <= lo:
            return lo
        return self.fdp.ConsumeIntInRange(lo, hi)

    def draw(self, s):
        while isinstance(s, LazyStrategy):
            s = s.wrapped_strategy
        kind = type(s).__name__
        if kind == "IntegersStrategy":
            return self.int_in(s.start, s.end)
        if kind in ("SampledFromStrategy", "JustStrategy"):
            els = s.elements
            value = els[self.int_in(0, len(els) - 1)]
            for t in getattr(s, "_transformations", ()):
                raise NotImplementedError("transformed sampled_from")
            return value
        if kind == "BooleansStrategy":
            return self.fdp.ConsumeBool()
        if kind == "PermutationStrategy":
            vals = list(s.values)
            for i in range(len(vals) - 1):
                j = self.int_in(i, len(vals) - 1)
                vals[i], vals[j] = vals[j], vals[i]
            return vals
        if kind == "ListStrategy":
            hi = s.max_size if s.max_size not in (None, float("inf")) else s.min_size + 16
            n = self.int_in(s.min_size, int(hi))
            return [self.draw(s.element_strategy) for _ in range(n)]
        if kind in ("UniqueListStrategy", "UniqueSampledListStrategy"):
            hi = s.max_size if s.max_size not in (None, float("inf")) else s.min_size + 16
            n = self.int_in(s.min_size, int(hi))
            out, seen = [], set()
            tries = 0
            while len(out) < n and tries < 20 * (n + 1):
                tries += 1
                v = self.draw(s.element_strategy)
                key = tuple(k(v) for k in s.keys)
                if key in seen:
                    # deterministic escape: derive a fresh value if the element is a string
                    if isinstance(v, str):
                        v = v + str(len(out))
                        key = tuple(k(v) for k in s.keys)
                    if key in seen:
                        continue
                seen.add(key)
                out.append(v)
            if len(out) < s.min_size:
                raise Reject()
            return out
        if kind == "TupleStrategy":
            return tuple(self.draw(e) for e in s.element_strategies)
        if kind == "FixedDictStrategy":
            return {k: self.draw(v) for k, v in s.mapping.items()}
        if kind == "OneOfStrategy":
            opts = s.original_strategies
            return self.draw(opts[self.int_in(0, len(opts) - 1)])
        if kind == "FloatStrategy":
            return self.fdp.ConsumeFloatInRange(s.min_value, s.max_value)
        if kind == "MappedStrategy":
            return s.pack(self.draw(s.mapped_strategy))
        if kind == "FilteredStrategy":
            for _ in range(30):
                v = self.draw(s.filtered_strategy)
                if all(c(v) for c in s.flat_conditions):
                    return v
            raise Reject()
        if kind == "CompositeStrategy":
            return s.definition(self, *s.args, **s.kwargs)
        raise NotImplementedError(f"strategy kind {kind}")
