"""C14 - layouts are geometrically coherent and orientation-symmetric."""
import math

from .. import render_common as rc
from ..plain import Instance
from ..runner import Result, Violation

ID = "C14"
LEVEL = "exploration"
LEVEL_TEXT = (
    "Random search over valid reconciliations (as C13) with node sizes in [1,100] and every numeric drawing parameter perturbed within positive "
    "values: finite coordinates, sibling species boxes disjoint and inside the parent box, pairwise disjoint trunks, every anchor the renderer "
    "dereferences present (rendering must not raise), horizontal layout == mirror image of the vertical layout computed with every node's width and "
    "height exchanged, and two computations on freshly parsed equal inputs give equal layouts."
)
LEVEL_NOTE = (
    "Trusted: the rectangle predicates of this module with tolerance 1e-6 absolute + 1e-9 relative (float32-representable inputs, sums of a few "
    "hundred terms). Not asserted because the property does not claim it: a trunk lying inside its own subtree box."
)
TECHNIQUE = "property-based testing: Hypothesis random reconciliations/sizes/parameters, geometric invariants and a mirror (metamorphic) relation"
DESIGN_REF = "DESIGN.md section 6 (C14)"
RULE = (
    "Hypothesis cases as C13 (<=10 object / <=6 species leaves, constructed valid mapping, optional labels, 24 sizes in [1,100] by call position, "
    "numeric DrawParams fields perturbed in (0,50]).  Per case, both orientations: all rect/trunk/anchor/branch coordinates finite; for every internal "
    "species the two child rects do not overlap and lie inside the parent's rect; no two trunks overlap; anchors exist for speciation children in the "
    "child layouts, for the kept child of a loss, for duplication/transfer children in the same layout, for transferred children in their species, "
    "and tikz.render does not raise; HORIZONTAL layout with (w,h) of every measured node exchanged == VERTICAL layout with x/y and w/h exchanged "
    "(rect, trunk, fork thickness, anchors, branch rects and branch anchors, in insertion order); a second computation from a freshly parsed input "
    "gives the same numbers.  Non-trivial: >=3 species nodes and >=1 duplication or transfer; distinct by SHA-1 of the case."
)
ASSUMPTIONS = ["positive node sizes and drawing parameters", "tolerance 1e-6 + 1e-9*|x| on coordinates"]
BUDGET = {"quick": {"random": 5000}, "thorough": {"random": 60000}}


def strategy(tier):
    return rc.render_case(max_obj=10, max_sp=6, max_fam=4)


def close(a, b):
    return abs(a - b) <= 1e-6 + 1e-9 * max(abs(a), abs(b))


def overlap(a, b, eps=1e-6):
    return a.x < b.x + b.w - eps and b.x < a.x + a.w - eps and a.y < b.y + b.h - eps and b.y < a.y + a.h - eps


def inside(a, b, eps=1e-6):
    return a.x >= b.x - eps and a.y >= b.y - eps and a.x + a.w <= b.x + b.w + eps and a.y + a.h <= b.y + b.h + eps


def flat(lay):
    """Orientation-neutral listing of every number of a layout, in insertion order, keyed by names/positions."""
    out = []
    for species, sub in lay.items():
        out.append((f"{species.name}.rect", tuple(sub.rect)))
        out.append((f"{species.name}.trunk", tuple(sub.trunk)))
        out.append((f"{species.name}.fork", (sub.fork_thickness,)))
        for i, (gene, pos) in enumerate(sub.anchors.items()):
            out.append((f"{species.name}.anchor[{i}:{'loss' if rc.is_pseudo(gene) else gene.name}]", tuple(pos)))
        for i, (gene, br) in enumerate(sub.branches.items()):
            key = f"{species.name}.branch[{i}:{'loss' if rc.is_pseudo(gene) else gene.name}]"
            out.append((key + ".kind", (br.kind.name,)))
            out.append((key + ".rect", tuple(br.rect)))
            for f in ("anchor_parent", "anchor_left", "anchor_right", "anchor_child"):
                out.append((key + "." + f, tuple(getattr(br, f))))
    return out


MIRROR_FIELD = {"anchor_left": "anchor_left", "anchor_right": "anchor_right", "anchor_parent": "anchor_parent", "anchor_child": "anchor_child"}


def mirrored(values):
    if len(values) == 4:
        x, y, w, h = values
        return (y, x, h, w)
    if len(values) == 2:
        return (values[1], values[0])
    return values


def check(case):
    base = {k: v for k, v in case.items() if not k.startswith("_")}
    inst = Instance(base, label=False)
    m = case["_mapping"]
    _pat, counts = inst.rec_profile(m)
    lays = {}
    for orientation, swap in (("VERTICAL", False), ("HORIZONTAL", True)):
        out, lay, _code, _params, _stub = rc.compute(case, orientation, swap=swap)
        tag = orientation.lower()
        lays[orientation] = lay
        for key, vals in flat(lay):
            for v in vals:
                if isinstance(v, (int, float)) and not math.isfinite(v):
                    raise Violation(f"layout.{tag}.non-finite", observed=(key, vals), expected="finite coordinates")
        species = list(lay)
        for sp in species:
            if not sp.is_leaf():
                a, b = sp.children
                if overlap(lay[a].rect, lay[b].rect):
                    raise Violation(f"layout.{tag}.sibling-boxes-overlap", observed=(tuple(lay[a].rect), tuple(lay[b].rect)), expected="disjoint",
                                    extra={"species": sp.name})
                for c in (a, b):
                    if not inside(lay[c].rect, lay[sp].rect):
                        raise Violation(f"layout.{tag}.child-box-outside-parent", observed=tuple(lay[c].rect), expected=tuple(lay[sp].rect),
                                        extra={"species": c.name})
        for i in range(len(species)):
            for j in range(i + 1, len(species)):
                if overlap(lay[species[i]].trunk, lay[species[j]].trunk):
                    raise Violation(f"layout.{tag}.trunks-overlap", observed=(tuple(lay[species[i]].trunk), tuple(lay[species[j]].trunk)),
                                    expected="disjoint", extra={"species": [species[i].name, species[j].name]})
        # anchors referenced by drawn branches
        mapping = out.object_species
        for sp, sub in lay.items():
            kids = sp.children if not sp.is_leaf() else (None, None)
            for gene, br in sub.branches.items():
                kind = rc.branch_kind(br)
                if kind == "LOSS":
                    if br.right is None:
                        ok = kids[0] is not None and br.left in lay[kids[0]].anchors
                    else:
                        ok = kids[1] is not None and br.right in lay[kids[1]].anchors
                elif kind == "S":
                    ok = kids[0] is not None and br.left in lay[kids[0]].anchors and br.right in lay[kids[1]].anchors
                elif kind == "D":
                    ok = br.left in sub.branches and br.right in sub.branches
                elif kind == "T":
                    ok = br.left in sub.branches and br.right in lay[mapping[br.right]].anchors
                else:
                    ok = True
                if not ok:
                    raise Violation(f"layout.{tag}.missing-anchor", observed=kind, expected="every referenced anchor exists",
                                    extra={"species": sp.name})
        # determinism: fresh parse, same numbers
        _o2, lay2, _c2, _p2, _s2 = rc.compute(case, orientation, swap=swap, render=False)
        f1, f2 = flat(lay), flat(lay2)
        if f1 != f2:
            diff = next((a, b) for a, b in zip(f1, f2) if a != b) if len(f1) == len(f2) else ("length", (len(f1), len(f2)))
            raise Violation(f"layout.{tag}.not-deterministic", observed=diff[1], expected=diff[0])
    fv, fh = flat(lays["VERTICAL"]), flat(lays["HORIZONTAL"])
    if len(fv) != len(fh):
        raise Violation("layout.mirror.structure", observed=len(fh), expected=len(fv))
    for (kv, vv), (kh, vh) in zip(fv, fh):
        if kv != kh:
            raise Violation("layout.mirror.structure", observed=kh, expected=kv)
        want = mirrored(vv)
        if len(want) != len(vh) or not all((a == b) if isinstance(a, str) else close(a, b) for a, b in zip(want, vh)):
            raise Violation("layout.mirror." + kv.split(".")[-1].split("[")[0], observed={"horizontal": vh}, expected={"mirrored_vertical": want},
                            extra={"field": kv})
    labels = [f"labels={case['_label_kind']}", f"species={min(len(inst.snodes), 7)}"]
    if case["_params"]:
        labels.append("params_perturbed")
    return Result(len(inst.snodes) >= 3 and (counts["D"] or counts["T"]), labels, evals=4)
