"""Reference optimisers, independent of superrec2.

Two levels:

* brute force (`brute_*`): enumerate every valid species mapping and every
  labelling, recount each candidate with the evaluator of plain.py, keep the
  minimum and the complete set attaining it.  Obviously correct, small sizes.
* memoised recursion (`RecOracle`): top-down `best(node, species, label)`
  over explicit lists/sets, complete optimal set by back-tracking.  Used for
  larger sizes; every run cross-checks it against brute force on the small
  cases it meets (see `selfcheck`).
"""
from __future__ import annotations

import itertools
from typing import Dict, List, Optional

from .plain import (
    INF,
    Instance,
    families,
    gain_nodes,
    is_subseq,
    labeling_losses,
    ordered_node_loss,
    required_content,
    times,
    unordered_node_loss,
)


class TooLarge(Exception):
    """The reference computation would exceed its budget: skip, never judge."""


def canon_solution(m, lab=None, ordered=True):
    ms = tuple(sorted(m.items()))
    if lab is None:
        return ms
    if ordered:
        ls = tuple(sorted((k, tuple(v)) for k, v in lab.items()))
    else:
        ls = tuple(sorted((k, tuple(sorted(v))) for k, v in lab.items()))
    return (ms, ls)


# ---------------------------------------------------------------------------
# DTL
# ---------------------------------------------------------------------------
def dtl_profiles(inst: Instance, restrict_lca=False, no_transfer=False, limit=2_000_000):
    """[(mapping, pattern, counts)] for every valid mapping."""
    out = []
    for m in inst.all_mappings(restrict_lca=restrict_lca, no_transfer=no_transfer):
        pat, counts = inst.rec_profile(m)
        out.append((m, pat, counts))
        if len(out) > limit:
            raise TooLarge("dtl mappings")
    return out


def dtl_optimum(inst: Instance, profiles=None, c=None, **kw):
    """(min cost or None, [optimal mappings], number of valid mappings).
    Mappings of infinite cost are not solutions."""
    profiles = profiles if profiles is not None else dtl_profiles(inst, **kw)
    best = INF
    sols = []
    for m, _pat, counts in profiles:
        cost = inst.profile_cost(counts, c)
        if cost == INF:
            continue
        if cost < best:
            best, sols = cost, [m]
        elif cost == best:
            sols.append(m)
    return (best if sols else None), sols, len(profiles)


# ---------------------------------------------------------------------------
# Root orders and labellings
# ---------------------------------------------------------------------------
def root_orders(inst: Instance) -> List[List[str]]:
    """Prescribed root order if the input gives a synteny for an internal
    root; else every permutation of the family set having every leaf synteny
    as a subsequence."""
    if inst.oroot in inst.lsyn and inst.ochildren[inst.oroot]:
        return [list(inst.lsyn[inst.oroot])]
    fams = families(inst)
    leaves = [inst.lsyn[l] for l in inst.oleaves]
    if len(fams) > 7:
        raise TooLarge("root orders")
    return [list(p) for p in itertools.permutations(fams) if all(is_subseq(s, p) for s in leaves)]


def below_content(inst: Instance) -> Dict[str, frozenset]:
    """node -> families carried by some leaf below it."""
    out = {}

    def rec(n):
        if not inst.ochildren[n]:
            out[n] = frozenset(inst.lsyn[n])
        else:
            out[n] = frozenset().union(*(rec(c) for c in inst.ochildren[n]))
        return out[n]

    rec(inst.oroot)
    return out


def ordered_labelings(inst: Instance, order, limit=200_000):
    """Every labelling with root = order, given leaves, each child a
    subsequence of its parent.  (Nodes are enumerated top-down between
    'everything carried below' and the parent's content: necessary
    conditions only, nothing valid is pruned.)"""
    idx = {f: i for i, f in enumerate(order)}
    below = below_content(inst)
    nodes = [n for n in inst.ointernal_pre if n != inst.oroot]
    lab = {inst.oroot: list(order)}
    if not inst.ochildren[inst.oroot]:
        yield {inst.oroot: list(inst.lsyn[inst.oroot])}
        return
    for l in inst.oleaves:
        lab[l] = list(inst.lsyn[l])
    count = 0

    def leaves_ok(n):
        return all(
            is_subseq(lab[c], lab[n]) for c in inst.ochildren[n] if not inst.ochildren[c]
        )

    def rec(i):
        nonlocal count
        if i == len(nodes):
            count += 1
            if count > limit:
                raise TooLarge("ordered labelings")
            yield dict(lab)
            return
        n = nodes[i]
        pset = set(lab[inst.oparent[n]])
        if not below[n] <= pset:
            return
        opt = sorted(pset - below[n], key=idx.get)
        for k in range(len(opt) + 1):
            for extra in itertools.combinations(opt, k):
                lab[n] = sorted(below[n] | set(extra), key=idx.get)
                if leaves_ok(n):
                    yield from rec(i + 1)
        lab.pop(n, None)

    if leaves_ok(inst.oroot):
        yield from rec(0)


def unordered_labelings(inst: Instance, canonical=False, limit=200_000):
    """Every family-set labelling in which each family is gained once at the
    LCA of its carrying leaves: a node's set lies between its required
    content and (parent's set + own gains).  canonical=True keeps only the
    two choices 'required content' / 'parent's set + own gains'."""
    gain = gain_nodes(inst)
    req = required_content(inst, gain)
    gains_at = {n: {f for f, g in gain.items() if g == n} for n in inst.onodes}
    nodes = list(inst.ointernal_pre)
    lab = {l: frozenset(inst.lsyn[l]) for l in inst.oleaves}
    count = 0

    def rec(i):
        nonlocal count
        if i == len(nodes):
            count += 1
            if count > limit:
                raise TooLarge("unordered labelings")
            yield dict(lab)
            return
        n = nodes[i]
        if n == inst.oroot:
            allowed = set(gains_at[n])
        else:
            allowed = set(lab[inst.oparent[n]]) | gains_at[n]
        if canonical:
            opts = [frozenset(req[n])]
            if n != inst.oroot and frozenset(allowed) != opts[0]:
                opts.append(frozenset(allowed))
        else:
            opt = sorted(allowed - req[n])
            opts = [
                frozenset(req[n] | set(e))
                for k in range(len(opt) + 1)
                for e in itertools.combinations(opt, k)
            ]
        for s in opts:
            if not (req[n] <= s <= allowed):
                continue
            # leaf children must fit under this node
            ok = True
            for c in inst.ochildren[n]:
                if not inst.ochildren[c] and not (lab[c] <= (s | gains_at[c])):
                    ok = False
            if ok:
                lab[n] = s
                yield from rec(i + 1)
        lab.pop(n, None)

    if not nodes:
        yield dict(lab)
        return
    yield from rec(0)


# ---------------------------------------------------------------------------
# Brute-force labelled optimum
# ---------------------------------------------------------------------------
def brute_labelled(inst: Instance, ordered: bool, restrict_lca=False, canonical=False,
                   budget=3_000_000, want_set=True, set_limit=50_000):
    """(min cost or None, set of canonical optimal solutions or None).

    The labelling cost depends on the mapping only through the event pattern,
    so costs are cached per pattern; that is an optimisation of the
    enumeration, not of the search space."""
    if ordered:
        labs = [lab for o in root_orders(inst) for lab in ordered_labelings(inst, o)]
    else:
        labs = list(unordered_labelings(inst, canonical=canonical))
    profiles = dtl_profiles(inst, restrict_lca=restrict_lca)
    patterns = {pat for _m, pat, _c in profiles}
    if len(labs) * len(patterns) > budget:
        raise TooLarge(f"{len(labs)} labelings x {len(patterns)} patterns")
    sl = inst.c["SEGMENTAL_LOSS"]
    cache = {}
    best = INF
    cands = []
    for m, pat, counts in profiles:
        if not labs:
            break
        if pat not in cache:
            cache[pat] = [labeling_losses(inst, pat, lab, ordered) for lab in labs]
        mn = min(cache[pat])
        tot = inst.profile_cost(counts) + times(sl, mn)
        if tot == INF:
            continue
        if tot < best:
            best, cands = tot, [(m, pat, mn)]
        elif tot == best:
            cands.append((m, pat, mn))
    if not cands:
        return None, (set() if want_set else None)
    sols = None
    if want_set:
        sols = set()
        for m, pat, mn in cands:
            for lab, cst in zip(labs, cache[pat]):
                if times(sl, cst) == times(sl, mn):
                    sols.add(canon_solution(m, lab, ordered))
                    if len(sols) > set_limit:
                        sols = None
                        break
            if sols is None:
                break
    return best, sols


# ---------------------------------------------------------------------------
# Memoised recursion (second-level oracle)
# ---------------------------------------------------------------------------
class RecOracle:
    """best(node, species, label): minimum cost of the object subtree at
    `node` given that node is mapped to `species` and labelled `label`.

    mode: 'plain' (no labels), 'ordered', 'unordered'."""

    def __init__(self, inst: Instance, mode: str, restrict_lca=False, canonical=False,
                 state_limit=400_000):
        self.inst = inst
        self.mode = mode
        self.canonical = canonical
        self.state_limit = state_limit
        self.memo = {}
        self.lcam = inst.lca_mapping() if restrict_lca else None
        if mode == "ordered":
            self.below = below_content(inst)
        elif mode == "unordered":
            self.gain = gain_nodes(inst)
            self.req = required_content(inst, self.gain)
            self.gains_at = {n: frozenset(f for f, g in self.gain.items() if g == n) for n in inst.onodes}
        self._opts = {}
        # species placements per child relative to x
        self._ev = {}

    # label options --------------------------------------------------------
    def child_labels(self, c, s):
        key = (c, s)
        if key in self._opts:
            return self._opts[key]
        inst = self.inst
        if self.mode == "plain":
            res = [None]
        elif self.mode == "ordered":
            if not inst.ochildren[c]:
                leaf = tuple(inst.lsyn[c])
                res = [leaf] if is_subseq(leaf, s) else []
            else:
                need = self.below[c]
                if not need <= set(s):
                    res = []
                else:
                    free = [i for i, f in enumerate(s) if f not in need]
                    res = []
                    for k in range(len(free) + 1):
                        for extra in itertools.combinations(free, k):
                            keep = set(extra)
                            res.append(tuple(f for i, f in enumerate(s) if f in need or i in keep))
        else:
            allowed = frozenset(s) | self.gains_at[c]
            if not inst.ochildren[c]:
                leaf = frozenset(inst.lsyn[c])
                res = [leaf] if leaf <= allowed else []
            else:
                need = frozenset(self.req[c])
                if not need <= allowed:
                    res = []
                elif self.canonical:
                    res = [need] + ([allowed] if allowed != need else [])
                else:
                    free = sorted(allowed - need)
                    res = [
                        need | frozenset(e)
                        for k in range(len(free) + 1)
                        for e in itertools.combinations(free, k)
                    ]
        self._opts[key] = res
        return res

    def node_loss(self, kind, s, sl, sr):
        if self.mode == "plain":
            return 0
        if self.mode == "ordered":
            return ordered_node_loss(kind, s, sl, sr)
        return unordered_node_loss(kind, s, sl, sr)

    def species_options(self, n):
        if self.lcam is not None:
            return [self.lcam[n]]
        return self.inst.snodes

    def events(self, x, n):
        """[(xl, xr, kind, nloss)] valid placements of n's children."""
        key = (x, n)
        if key not in self._ev:
            inst = self.inst
            l, r = inst.ochildren[n]
            out = []
            for xl in self.species_options(l):
                for xr in self.species_options(r):
                    ev = inst.event3(x, xl, xr)
                    if ev is not None:
                        out.append((xl, xr, ev[0], ev[1]))
            self._ev[key] = out
        return self._ev[key]

    # recursion ----------------------------------------------------------------
    def best(self, n, x, s):
        key = (n, x, s)
        if key in self.memo:
            return self.memo[key]
        if len(self.memo) > self.state_limit:
            raise TooLarge("rec states")
        inst = self.inst
        if not inst.ochildren[n]:
            val = 0 if x == inst.los[n] else INF
        else:
            l, r = inst.ochildren[n]
            c = inst.c
            val = INF
            for xl, xr, kind, nloss in self.events(x, n):
                base = inst.event_unit(kind) + times(c["FULL_LOSS"], nloss)
                if base >= val and base != INF:
                    # cannot improve strictly; still fine to skip (min only)
                    pass
                if base == INF:
                    continue
                for sl in self.child_labels(l, s):
                    bl = self.best(l, xl, sl)
                    if bl == INF:
                        continue
                    for sr in self.child_labels(r, s):
                        br = self.best(r, xr, sr)
                        if br == INF:
                            continue
                        tot = base + bl + br + times(c["SEGMENTAL_LOSS"], self.node_loss(kind, s, sl, sr))
                        if tot < val:
                            val = tot
        self.memo[key] = val
        return val

    def root_labels(self):
        inst = self.inst
        if self.mode == "plain":
            return [None]
        if self.mode == "ordered":
            if not inst.ochildren[inst.oroot]:
                return [tuple(inst.lsyn[inst.oroot])]
            return [tuple(o) for o in root_orders(inst)]
        if not inst.ochildren[inst.oroot]:
            return [frozenset(inst.lsyn[inst.oroot])]
        return [frozenset(self.gains_at[inst.oroot])]

    def optimum(self):
        best = INF
        for s in self.root_labels():
            for x in self.species_options(self.inst.oroot):
                v = self.best(self.inst.oroot, x, s)
                if v < best:
                    best = v
        return None if best == INF else best

    # complete optimal set ---------------------------------------------------
    def solutions(self, limit=50_000):
        """Set of canonical optimal solutions (None if more than limit)."""
        opt = self.optimum()
        out = set()
        if opt is None:
            return out
        inst = self.inst
        c = inst.c
        ordered = self.mode == "ordered"

        def expand(n, x, s, target):
            """Yield (mapping dict, label dict) of subtree solutions of cost target."""
            if not inst.ochildren[n]:
                yield {n: x}, {n: s}
                return
            l, r = inst.ochildren[n]
            for xl, xr, kind, nloss in self.events(x, n):
                base = inst.event_unit(kind) + times(c["FULL_LOSS"], nloss)
                if base == INF:
                    continue
                for sl in self.child_labels(l, s):
                    bl = self.best(l, xl, sl)
                    if bl == INF:
                        continue
                    for sr in self.child_labels(r, s):
                        br = self.best(r, xr, sr)
                        if br == INF:
                            continue
                        tot = base + bl + br + times(c["SEGMENTAL_LOSS"], self.node_loss(kind, s, sl, sr))
                        if tot != target:
                            continue
                        for ml, ll in expand(l, xl, sl, bl):
                            for mr, lr in expand(r, xr, sr, br):
                                m = {n: x}
                                m.update(ml)
                                m.update(mr)
                                lab = {n: s}
                                lab.update(ll)
                                lab.update(lr)
                                yield m, lab

        for s in self.root_labels():
            for x in self.species_options(inst.oroot):
                if self.best(inst.oroot, x, s) != opt:
                    continue
                for m, lab in expand(inst.oroot, x, s, opt):
                    if self.mode == "plain":
                        out.add(canon_solution(m))
                    else:
                        out.add(canon_solution(m, lab, ordered))
                    if len(out) > limit:
                        return None
        return out


def rec_solve(inst: Instance, mode, restrict_lca=False, canonical=False, want_set=True, set_limit=50_000):
    o = RecOracle(inst, mode, restrict_lca=restrict_lca, canonical=canonical)
    opt = o.optimum()
    sols = o.solutions(limit=set_limit) if want_set else None
    return opt, sols


# ---------------------------------------------------------------------------
# Oracle self-checks
# ---------------------------------------------------------------------------
class OracleBug(Exception):
    """The two reference levels disagree: harness error, never a verdict."""


def cross_check(inst: Instance, mode, restrict_lca=False, canonical=False):
    """Compare brute force and recursion on one instance; returns the agreed
    (optimum, set) or raises TooLarge/OracleBug."""
    if mode == "plain":
        b_opt, b_sols, _ = dtl_optimum(inst, restrict_lca=restrict_lca)
        b_set = {canon_solution(m) for m in b_sols}
    else:
        b_opt, b_set = brute_labelled(inst, mode == "ordered", restrict_lca=restrict_lca, canonical=canonical)
    r_opt, r_set = rec_solve(inst, mode, restrict_lca=restrict_lca, canonical=canonical)
    if b_opt != r_opt or (b_set is not None and r_set is not None and b_set != r_set):
        raise OracleBug(
            f"brute={b_opt}/{None if b_set is None else len(b_set)} rec={r_opt}/{None if r_set is None else len(r_set)} "
            f"mode={mode} lca={restrict_lca} canonical={canonical} case={inst.case}"
        )
    return b_opt, (b_set if b_set is not None else r_set)


# ---------------------------------------------------------------------------
# Binary refinements of a (possibly multifurcating) tree
# ---------------------------------------------------------------------------
def all_binary_on(items: list):
    """All rooted binary trees (nested 2-tuples, unordered children
    canonicalised by enumeration) whose leaves are exactly `items`."""
    if len(items) == 1:
        return [items[0]]
    first, rest = items[0], items[1:]
    out = []
    for k in range(len(rest)):
        for comb in itertools.combinations(range(len(rest)), k):
            a = [first] + [rest[i] for i in comb]
            b = [rest[i] for i in range(len(rest)) if i not in comb]
            for ta in all_binary_on(a):
                for tb in all_binary_on(b):
                    out.append((ta, tb))
    return out


def double_factorial_odd(k: int) -> int:
    """(2k-3)!! = number of rooted binary trees on k labelled leaves."""
    r = 1
    for i in range(3, 2 * k - 2, 2):
        r *= i
    return r


def refinements(tree):
    """All binary refinements of a PTree, as PTrees.  Original nodes keep
    name and features (on the node with the same clade); added nodes are
    unnamed.  Independent of the package: children of a node with k children
    are arranged by every rooted binary tree on k labelled items."""
    from .plain import PTree

    def shapes(n):
        """list of nested structures: ('leaf', n) | ('orig', n, arrangement) where arrangement is
        a nested 2-tuple over child structures."""
        kids = tree.children[n]
        if not kids:
            return [("leaf", n)]
        out = []
        child_opts = [shapes(c) for c in kids]
        for combo in itertools.product(*child_opts):
            for arr in all_binary_on(list(combo)):
                out.append(("orig", n, arr))
        return out

    def build(struct):
        res = PTree()

        def emit_struct(s, parent):
            if s[0] == "leaf":
                res.add(parent, tree.name[s[1]], tree.features[s[1]])
                return
            _, n, arr = s
            idx = res.add(parent, tree.name[n], tree.features[n])
            emit_arr_children(arr, idx)

        def emit_arr_children(arr, idx):
            # arr is a 2-tuple (a, b) of either structs or nested 2-tuples
            for part in arr:
                emit_arr(part, idx)

        def emit_arr(part, parent):
            if isinstance(part, tuple) and part and part[0] in ("leaf", "orig"):
                emit_struct(part, parent)
            else:
                idx = res.add(parent, "", {})
                emit_arr_children(part, idx)

        emit_struct(struct, None)
        return res

    return [build(s) for s in shapes(tree.root)]


def all_leaf_labelled_trees(labels):
    """All rooted trees on the given leaf labels whose internal nodes have
    >= 2 (unordered) children, as nested tuples of labels."""
    labels = list(labels)
    if len(labels) == 1:
        return [labels[0]]

    def partitions(items):
        if not items:
            yield []
            return
        first, rest = items[0], items[1:]
        for k in range(len(rest) + 1):
            for comb in itertools.combinations(range(len(rest)), k):
                block = [first] + [rest[i] for i in comb]
                remaining = [rest[i] for i in range(len(rest)) if i not in comb]
                for p in partitions(remaining):
                    yield [block] + p

    out = []
    for part in partitions(labels):
        if len(part) < 2:
            continue
        for combo in itertools.product(*(all_leaf_labelled_trees(b) for b in part)):
            out.append(tuple(combo))
    return out
