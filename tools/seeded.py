#!/usr/bin/env python3
"""tools/seeded.py import <srcdir> <k> <name>      confirm a sub-agent's change and store it as seeded/<name>/
   tools/seeded.py run <name> [ID ...]              run checks (default: the property it targets) against seeded/<name>/patch.diff
   tools/seeded.py matrix [tier]                    run every seeded change against its target check; prints a table

A change is kept only after this script has confirmed, in a scratch worktree of /repo HEAD outside /repo and /verif:
the patch applies, the 55 baseline tests still pass, the demonstration fails with the patch and passes without it."""
import json, os, shutil, subprocess, sys, tempfile

V = os.path.dirname(os.path.dirname(os.path.abspath(__file__)))
PY = "/venv/bin/python"


def sh(cmd, **kw):
    return subprocess.run(cmd, shell=isinstance(cmd, str), capture_output=True, text=True, **kw)


class Worktree:
    def __enter__(self):
        self.tmp = tempfile.mkdtemp(prefix="seeded.")
        self.path = os.path.join(self.tmp, "repo")
        r = sh(["git", "-C", "/repo", "worktree", "add", "-q", "--detach", self.path, "HEAD"])
        if r.returncode:
            raise SystemExit(r.stderr)
        return self.path

    def __exit__(self, *a):
        sh(["git", "-C", "/repo", "worktree", "remove", "--force", self.path])
        shutil.rmtree(self.tmp, ignore_errors=True)


def baseline(path):
    r = sh(f"cd {path} && PYTHONPATH={path}/src {PY} -m pytest -q -p no:cacheprovider --timeout=900 2>&1 | tail -1")
    line = r.stdout.strip()
    ok = "55 passed" in line and "2 failed" in line
    return ok, line


def demo(path, script):
    r = sh(f"cd {path} && PYTHONPATH={path}/src TQDM_DISABLE=1 timeout 900 {PY} {script} 2>&1 | tail -5")
    r2 = sh(f"cd {path} && PYTHONPATH={path}/src TQDM_DISABLE=1 timeout 900 {PY} {script} >/dev/null 2>&1; echo $?")
    return int(r2.stdout.strip() or 99), r.stdout.strip()[-400:]


def cmd_import(src, k, name):
    patch, dm, meta = (os.path.join(src, f"{x}{k}{e}") for x, e in (("patch", ".diff"), ("demo", ".py"), ("meta", ".json")))
    for f in (patch, dm):
        if not os.path.exists(f):
            raise SystemExit(f"missing {f}")
    info = json.load(open(meta)) if os.path.exists(meta) else {}
    with Worktree() as w:
        shutil.copy(dm, os.path.join(w, "demo_seed.py"))
        code0, out0 = demo(w, "demo_seed.py")
        r = sh(["git", "-C", w, "apply", patch])
        if r.returncode:
            print("REJECT: patch does not apply:", r.stderr[:300]); return 1
        changed = sh(["git", "-C", w, "diff", "--stat"]).stdout
        ok, line = baseline(w)
        code1, out1 = demo(w, "demo_seed.py")
    print(f"unpatched demo exit={code0}; patched: baseline={'ok' if ok else 'BROKEN'} ({line}); demo exit={code1}")
    if code0 != 0 or code1 == 0 or not ok:
        print("REJECT"); print(out0); print(out1); return 1
    dst = os.path.join(V, "seeded", name)
    os.makedirs(dst, exist_ok=True)
    shutil.copy(patch, os.path.join(dst, "patch.diff"))
    shutil.copy(dm, os.path.join(dst, "demo.py"))
    info.update({
        "id": name,
        "confirmed": {"baseline_with_patch": line, "demo_exit_unpatched": code0, "demo_exit_patched": code1,
                      "demo_output_patched": out1, "how": "tools/seeded.py import (scratch worktree of /repo HEAD)"},
        "changed": changed.strip().splitlines()[-1] if changed.strip() else "",
    })
    info.setdefault("checks", {})
    json.dump(info, open(os.path.join(dst, "meta.json"), "w"), indent=1)
    print("KEPT as", dst)
    return 0


def run_checks(name, ids, tier="quick"):
    dst = os.path.join(V, "seeded", name)
    meta = json.load(open(os.path.join(dst, "meta.json")))
    ids = ids or [meta["property"]]
    res = {}
    with Worktree() as w:
        r = sh(["git", "-C", w, "apply", os.path.join(dst, "patch.diff")])
        if r.returncode:
            raise SystemExit("patch does not apply: " + r.stderr)
        for pid in ids:
            env = dict(os.environ, VERIF_REPO_SRC=os.path.join(w, "src"), VERIF_EVIDENCE_DIR=os.path.join(w, "..", "evidence"),
                       VERIF_RUN_DIR=os.path.join(w, "..", "run"), VERIF_NO_SHRINK="1")
            r = subprocess.run([os.path.join(V, "vcheck"), pid, "--tier", tier], capture_output=True, text=True, env=env)
            clause = next((l.strip() for l in r.stdout.splitlines() if l.strip().startswith("clause=")), "")
            res[pid] = {"exit": r.returncode, "tier": tier, "clause": clause.split(" ")[0], "summary": r.stdout.strip().splitlines()[-1][:200] if r.stdout.strip() else r.stderr[-200:]}
            print(f"{name} {pid} exit={r.returncode} {clause[:120]}")
    meta.setdefault("checks", {}).update(res)
    meta["caught_by"] = sorted(p for p, v in meta["checks"].items() if v["exit"] == 1)
    json.dump(meta, open(os.path.join(dst, "meta.json"), "w"), indent=1)
    return res


def main():
    if sys.argv[1] == "import":
        sys.exit(cmd_import(sys.argv[2], sys.argv[3], sys.argv[4]))
    if sys.argv[1] == "run":
        tier = os.environ.get("TIER", "quick")
        run_checks(sys.argv[2], sys.argv[3:], tier)
    if sys.argv[1] == "matrix":
        tier = sys.argv[2] if len(sys.argv) > 2 else "quick"
        only_missing = "--missing" in sys.argv
        names = []
        for name in sorted(os.listdir(os.path.join(V, "seeded"))):
            mp = os.path.join(V, "seeded", name, "meta.json")
            if os.path.exists(mp):
                meta = json.load(open(mp))
                if only_missing and meta["property"] in meta.get("checks", {}):
                    continue
                names.append(name)
        jobs = int(os.environ.get("MATRIX_JOBS", "4"))
        # several changes at a time, each check on 16/jobs worker processes
        os.environ["VERIF_NPROC"] = str(max(1, 16 // jobs))
        from multiprocessing.dummy import Pool
        with Pool(jobs) as pool:
            pool.map(lambda n: run_checks(n, [], tier), names)


main()
