"""Hypothesis strategies and bounded-exhaustive enumerators.

Every random choice is a Hypothesis draw.  Strategies construct valid inputs
(no rejection); cases are plain JSON-able dictionaries in the documented input
format with explicitly named internal nodes (O#/S# pre-order).
"""
from __future__ import annotations

import itertools

from hypothesis import strategies as st

from .plain import INF, plane_binary_shapes, shape_newick

def chance(draw, num, den):
    """True with probability ~num/den (den <= 12).  Drawn through a small
    sampled_from because Hypothesis over-represents small values of wider
    integer ranges (measured: integers(0, 99) < 30 in 77% of cases).  Inside
    long composite draws Hypothesis still picks the first (simplest) element
    about twice as often as its share (measured), so callers pass nominal
    odds tuned against the class histogram reported in the evidence."""
    # the over-represented first slot is given to False; the True slots follow it
    return draw(st.sampled_from([False] + [True] * num + [False] * (den - num - 1))) if den > num else True


SPECIES_NAMES = ["SA", "SB", "SC", "SD", "SE", "SF", "SG", "SH", "SI", "SJ"]
DEFAULT = {"SPECIATION": 0, "DUPLICATION": 1, "HORIZONTAL_TRANSFER": 1, "FULL_LOSS": 1, "SEGMENTAL_LOSS": 1}


# ---------------------------------------------------------------------------
# trees
# ---------------------------------------------------------------------------
def nested_to_newick(tree, prefix):
    """nested tuples/str -> newick with internal nodes named prefix+k in
    pre-order (prefix None: unnamed)."""
    counter = itertools.count()

    def rec(t):
        if isinstance(t, str):
            return t
        name = f"{prefix}{next(counter)}" if prefix is not None else ""
        return "(" + ",".join(rec(c) for c in t) + ")" + name

    return rec(tree) + ";"


@st.composite
def nested_tree(draw, leaves, polytomies=0, max_arity=4):
    """Random tree shape over the given leaf names (nested tuples).  Binary
    joins of two drawn forest members; up to `polytomies` joins take 3 or more
    members instead (the first at most max_arity, later ones at most 3, which
    bounds the number of binary refinements)."""
    forest = list(leaves)
    poly_left = polytomies
    cap = max_arity
    # a third of the trees are caterpillars (maximal depth): deep chains of species are what
    # distance-dependent loss counting needs and uniform joins almost never produce beyond 4 leaves
    caterpillar = len(forest) >= 4 and chance(draw, 1, 3)
    grown = None
    while len(forest) > 1:
        k = 2
        if poly_left and len(forest) >= 3 and chance(draw, 3, 4):
            k = draw(st.integers(3, min(cap, len(forest))))
            poly_left -= 1
            cap = 3
        picked = []
        for n in range(k):
            if caterpillar and n == 0 and grown is not None and grown in forest:
                i = forest.index(grown)
            else:
                i = draw(st.integers(0, len(forest) - 1))
            picked.append(forest.pop(i))
        if draw(st.booleans()):
            picked.reverse()
        grown = tuple(picked)
        forest.append(grown)
    return forest[0]


def biased_size(draw, lo, hi):
    """Size in [lo, hi].  Hypothesis over-represents the lower end of small
    integer ranges (measured: 30-45% of cases at the minimum), so the size is
    derived from one wide draw: weights grow linearly with the size, and the
    value still shrinks towards lo."""
    span = hi - lo + 1
    total = span * (span + 1) // 2
    k = draw(st.integers(0, 1_000_003)) % total
    size = lo
    acc = 0
    for i in range(span):
        acc += i + 1
        if k < acc:
            size = lo + i
            break
    return size


@st.composite
def trees_and_leaves(draw, max_obj, max_sp, min_obj=1, min_sp=1, obj_poly=0, sp_poly=0, concentrate=False, misleading=False):
    nsp = biased_size(draw, min_sp, max_sp)
    species = SPECIES_NAMES[:nsp]
    stree = draw(nested_tree(species, polytomies=sp_poly, max_arity=3))
    nobj = biased_size(draw, min_obj, max_obj)
    los = {}
    hosts = species
    if concentrate and nsp >= 3:
        # all objects in two or three of the species: the others are empty and many lineages cross the same ancestors
        k = draw(st.integers(2, 3))
        hosts = [species[i] for i in sorted(draw(st.permutations(list(range(nsp))))[:k])]
    for i in range(nobj):
        s = hosts[draw(st.integers(0, len(hosts) - 1))]
        shown = s
        if misleading and nsp >= 2 and chance(draw, 1, 3):
            # the leaf is hosted by s (explicit assignment) but named after another species
            shown = species[(species.index(s) + 1 + draw(st.integers(0, nsp - 2))) % nsp]
        los[f"{shown}_{i}"] = s
    otree = draw(nested_tree(list(los), polytomies=obj_poly))
    return otree, stree, los


# ---------------------------------------------------------------------------
# costs
# ---------------------------------------------------------------------------
HGT = st.sampled_from([0, 1, 2, 3, INF, 1, 2, 5, 8, INF])


@st.composite
def coherent_costs(draw, labelled=True, maxv=3, huge=True):
    """Cost vector inside spe + 2*sloss <= dup + 2*floss (labelled) or
    spe <= dup + 2*floss (plain), by construction."""
    if chance(draw, 1, 10):
        return dict(DEFAULT)
    if maxv == 3 and chance(draw, 1, 8):
        maxv = 9  # unit costs are arbitrary non-negative integers: one vector in eight ranges up to 9
    dup = draw(st.integers(0, maxv))
    floss = draw(st.integers(0, maxv))
    if labelled:
        sloss = draw(st.integers(0, min(maxv, (dup + 2 * floss) // 2)))
        spe = draw(st.integers(0, min(maxv, dup + 2 * floss - 2 * sloss)))
    else:
        sloss = draw(st.integers(0, maxv))
        spe = draw(st.integers(0, min(maxv, dup + 2 * floss)))
    hgt = draw(HGT)
    c = {"SPECIATION": spe, "DUPLICATION": dup, "HORIZONTAL_TRANSFER": hgt, "FULL_LOSS": floss, "SEGMENTAL_LOSS": sloss}
    if huge and chance(draw, 1, 12):
        # unit costs are arbitrary non-negative integers: one of them far above the others (the region is kept: only its
        # right-hand side or the transfer cost grows), or the whole vector scaled by a large odd factor - totals then
        # need more than 6-9 significant digits and differences of one unit must still count
        which = draw(st.sampled_from(["DUPLICATION", "FULL_LOSS", "HORIZONTAL_TRANSFER", "scale", "scale"]))
        big = draw(st.sampled_from([1234567, 10**9 + 7, 10**12]))
        if which == "scale":
            c = {k: (v if v == INF else v * big) for k, v in c.items()}
        elif c[which] != INF:
            c[which] += big
    return c


ALT_FAMILY_NAMES = ["g9", "g10", "g2", "16S", "g100", "trnA", "g11", "23S", "x1y10", "x1y9", "G2", "0"]


def alt_family_map(fams, salt=0):
    """g0, g1, ... -> names whose natural-sort, string-sort and case orders all differ (digit-leading ones included)."""
    return {f: ALT_FAMILY_NAMES[(int(f[1:]) + salt) % len(ALT_FAMILY_NAMES)] for f in fams}


def rename_families(case, fmap):
    out = dict(case)
    for key in ("leaf_syntenies", "_lab_o", "_lab_u"):
        if key in case:
            out[key] = {k: [fmap.get(x, x) for x in v] for k, v in case[key].items()}
    return out


@st.composite
def free_costs(draw, maxv=3):
    if chance(draw, 1, 12):
        return dict(DEFAULT)
    vals = [draw(st.integers(0, maxv)) for _ in range(4)]
    return {
        "SPECIATION": vals[0],
        "DUPLICATION": vals[1],
        "HORIZONTAL_TRANSFER": draw(st.one_of(st.integers(0, maxv), st.just(INF))),
        "FULL_LOSS": vals[2],
        "SEGMENTAL_LOSS": vals[3],
    }


def in_region(c, labelled=True):
    if labelled:
        return c["SPECIATION"] + 2 * c["SEGMENTAL_LOSS"] <= c["DUPLICATION"] + 2 * c["FULL_LOSS"]
    return c["SPECIATION"] <= c["DUPLICATION"] + 2 * c["FULL_LOSS"]


# ---------------------------------------------------------------------------
# syntenies
# ---------------------------------------------------------------------------
def _clades_of(tree):
    """leaf-name lists of every node of a nested-tuple tree."""
    out = []

    def rec(t):
        if isinstance(t, str):
            out.append([t])
            return [t]
        ls = []
        for c in t:
            ls += rec(c)
        out.append(ls)
        return ls

    rec(tree)
    return out


@st.composite
def leaf_syntenies(draw, leaves, max_fam=4, single_prob=0, allow_inconsistent=True, tree=None):
    """leaf -> non-empty list of distinct families.  Returns (mapping,
    hidden order or None, consistent flag).

    Two content models: independent subsets per leaf (most families are then
    gained at the root), or - when the object tree is given, half of the
    cases - clade-structured content: every family is confined to a drawn
    clade and carried by most of its leaves, so families are gained deep in
    the tree, subtrees have private families and some leaves lack what their
    relatives carry (what the inheritance logic of the unordered solvers and
    the loss runs of the ordered ones feed on)."""
    if single_prob and chance(draw, round(single_prob / 10), 10):
        return {l: ["g0"] for l in leaves}, ["g0"], True
    nf = biased_size(draw, 1, max_fam)
    fams = [f"g{i}" for i in range(nf)]
    order = draw(st.permutations(fams))
    consistent = True
    if allow_inconsistent and nf >= 2:
        consistent = chance(draw, 3, 4)
    out = {}
    if tree is not None and len(leaves) >= 3 and draw(st.booleans()):
        clades = _clades_of(tree)
        content = {l: set() for l in leaves}
        for f in fams:
            clade = clades[draw(st.integers(0, len(clades) - 1))]
            forced = clade[draw(st.integers(0, len(clade) - 1))]
            for l in clade:
                if l == forced or chance(draw, 3, 4):
                    content[l].add(f)
        for l in leaves:
            if not content[l]:
                content[l].add(fams[draw(st.integers(0, nf - 1))])
            sub = [f for f in order if f in content[l]]
            if not consistent:
                sub = list(draw(st.permutations(sub)))
            out[l] = sub
        return out, list(order), consistent
    for l in leaves:
        mask = draw(st.integers(1, 2**nf - 1))
        sub = [f for i, f in enumerate(order) if mask >> i & 1]
        if not consistent:
            sub = list(draw(st.permutations(sub)))
        out[l] = sub
    return out, list(order), consistent


# ---------------------------------------------------------------------------
# whole cases
# ---------------------------------------------------------------------------
@st.composite
def rec_case(draw, max_obj=5, max_sp=4, min_obj=1, min_sp=1, costs="coherent", labelled=False,
             max_fam=4, prescribed_root=False, single_prob=0, obj_poly=0, sp_poly=0,
             allow_inconsistent=True, maxcost=3, concentrate=False, prescribed_odds=(1, 5), misleading=False):
    """misleading: a third of the object leaves are named after a species other than the one hosting them - only for
    callers that always pass the explicit leaf_object_species (the names then carry no information)."""
    otree, stree, los = draw(trees_and_leaves(max_obj, max_sp, min_obj, min_sp, obj_poly, sp_poly, concentrate,
                                              misleading and chance(draw, 1, 3)))
    case = {
        "object_tree": nested_to_newick(otree, "O"),
        "species_tree": nested_to_newick(stree, "S"),
        "leaf_object_species": los,
    }
    if costs == "coherent":
        case["costs"] = draw(coherent_costs(labelled=labelled, maxv=maxcost))
    elif costs == "free":
        case["costs"] = draw(free_costs(maxv=maxcost))
    elif costs == "default":
        case["costs"] = dict(DEFAULT)
    if labelled:
        syn, order, consistent = draw(
            leaf_syntenies(list(los), max_fam=max_fam, single_prob=single_prob,
                           allow_inconsistent=allow_inconsistent, tree=otree)
        )
        if prescribed_root and consistent and len(los) > 1 and chance(draw, *prescribed_odds):
            present = {f for s in syn.values() for f in s}
            syn = dict(syn)
            syn["O0"] = [f for f in order if f in present]
            if chance(draw, 1, 3):
                # a prescribed root is any common supersequence of the leaves: it may name a family no leaf carries
                syn["O0"].insert(draw(st.integers(0, len(syn["O0"]))), "gx")
        case["leaf_syntenies"] = syn
    return case


@st.composite
def duplicated_clade_case(draw, max_sp=5, costs="coherent"):
    """An object tree whose root joins two subtrees over the SAME multiset of leaf species but with independently drawn
    shapes (what a duplication of a whole clade followed by differential rearrangement looks like), optionally next to
    one more leaf: 6..9 object leaves."""
    nsp = draw(st.integers(2, max_sp))
    species = SPECIES_NAMES[:nsp]
    stree = draw(nested_tree(species))
    hosts = [species[draw(st.integers(0, nsp - 1))] for _ in range(draw(st.integers(3, 4)))]
    los = {}
    halves = []
    k = 0
    for _copy in range(2):
        names = []
        for s in hosts:
            names.append(f"{s}_{k}")
            los[names[-1]] = s
            k += 1
        halves.append(draw(nested_tree(names)))
    otree = tuple(halves)
    if draw(st.booleans()):
        s = species[draw(st.integers(0, nsp - 1))]
        los[f"{s}_{k}"] = s
        otree = (otree, f"{s}_{k}") if draw(st.booleans()) else (f"{s}_{k}", otree)
    return {
        "object_tree": nested_to_newick(otree, "O"),
        "species_tree": nested_to_newick(stree, "S"),
        "leaf_object_species": los,
        "costs": draw(coherent_costs(labelled=False)) if costs == "coherent" else dict(DEFAULT),
    }


@st.composite
def many_orders_case(draw, nfam=5, max_obj=4, max_sp=2):
    """Few leaves carrying one or two families each out of `nfam`: the precedence constraints are so few that the
    families admit dozens of root orders (5 families: 30..120), all of which the ordered solvers have to explore."""
    otree, stree, los = draw(trees_and_leaves(max_obj, max_sp, 2, 1))
    fams = [f"g{i}" for i in range(nfam)]
    leaves = list(los)
    order = draw(st.permutations(fams))
    syn = {l: [] for l in leaves}
    for i, f in enumerate(order):
        # every family on one leaf (drawn), so that all of them occur; a leaf holds at most two, in hidden order
        cands = [l for l in leaves if len(syn[l]) < 2] or leaves
        syn[cands[draw(st.integers(0, len(cands) - 1))]].append(f)
    for l in leaves:
        if not syn[l]:
            syn[l] = [order[draw(st.integers(0, nfam - 1))]]
    return {
        "object_tree": nested_to_newick(otree, "O"),
        "species_tree": nested_to_newick(stree, "S"),
        "leaf_object_species": los,
        "leaf_syntenies": syn,
        "costs": draw(coherent_costs(labelled=True)),
    }


@st.composite
def many_families_case(draw, min_fam=9, max_fam=11, max_obj=4, max_sp=2):
    """Few leaves over 9..11 families with a prescribed root order (one root order, masks wider than one byte)."""
    otree, stree, los = draw(trees_and_leaves(max_obj, max_sp, 2, 1))
    nf = draw(st.integers(min_fam, max_fam))
    order = list(draw(st.permutations([f"g{i}" for i in range(nf)])))
    syn = {}
    for leaf in los:
        mask = draw(st.integers(1, 2**nf - 1))
        syn[leaf] = [f for i, f in enumerate(order) if mask >> i & 1]
    present = {f for v in syn.values() for f in v}
    case = {
        "object_tree": nested_to_newick(otree, "O"),
        "species_tree": nested_to_newick(stree, "S"),
        "leaf_object_species": los,
        "leaf_syntenies": syn,
        "costs": draw(coherent_costs(labelled=True)),
    }
    if len(los) > 1:
        case["leaf_syntenies"]["O0"] = [f for f in order if f in present]
    return case


@st.composite
def repeats_case(draw, min_obj=4, max_obj=7, max_sp=2, max_fam=4, distinct=3):
    """Many leaves sharing two or three distinct syntenies (what real gene families look like: most copies carry the
    same content), few species, no prescribed root."""
    otree, stree, los = draw(trees_and_leaves(max_obj, max_sp, min_obj, 1))
    nf = draw(st.integers(2, max_fam))
    fams = [f"g{i}" for i in range(nf)]
    order = draw(st.permutations(fams))
    pool = []
    for _ in range(draw(st.integers(2, distinct))):
        mask = draw(st.integers(1, 2**nf - 1))
        pool.append([f for i, f in enumerate(order) if mask >> i & 1])
    syn = {leaf: list(pool[draw(st.integers(0, len(pool) - 1))]) for leaf in los}
    return {
        "object_tree": nested_to_newick(otree, "O"),
        "species_tree": nested_to_newick(stree, "S"),
        "leaf_object_species": los,
        "leaf_syntenies": syn,
        "costs": draw(coherent_costs(labelled=True)),
    }


@st.composite
def deep_chain_case(draw, min_obj=6, max_obj=8, max_sp=3, max_fam=5, ordered=False, costs="coherent", maxcost=3):
    """A caterpillar object tree (one chain of min_obj-1 .. max_obj-1 nested ancestors) over few species with
    independently drawn leaf contents: the shape on which inheritance runs through several consecutive
    ancestors (content kept, gained or lost three and more levels below the node that holds it)."""
    nsp = draw(st.integers(1, max_sp))
    species = SPECIES_NAMES[:nsp]
    stree = draw(nested_tree(species))
    nobj = draw(st.integers(min_obj, max_obj))
    los = {}
    for i in range(nobj):
        s = species[draw(st.integers(0, nsp - 1))]
        los[f"{s}_{i}"] = s
    leaves = list(los)
    chain = leaves[0]
    for leaf in leaves[1:]:
        chain = (chain, leaf) if draw(st.booleans()) else (leaf, chain)
    nf = draw(st.integers(3, max_fam))
    fams = [f"g{i}" for i in range(nf)]
    order = draw(st.permutations(fams))
    syn = {}
    for leaf in leaves:
        mask = draw(st.integers(1, 2**nf - 1))
        syn[leaf] = [f for i, f in enumerate(order) if mask >> i & 1]
    case = {
        "object_tree": nested_to_newick(chain, "O"),
        "species_tree": nested_to_newick(stree, "S"),
        "leaf_object_species": los,
        "leaf_syntenies": syn,
        "costs": draw(coherent_costs(labelled=True)) if costs == "coherent" else (draw(free_costs(maxv=maxcost)) if costs == "free" else dict(DEFAULT)),
    }
    return case


# ---------------------------------------------------------------------------
# exhaustive enumerators
# ---------------------------------------------------------------------------
def all_inputs(max_obj, max_sp, min_obj=1, min_sp=1):
    """Every (object plane shape x species plane shape x leaf assignment)
    with named internal nodes.  Yields case dicts without costs."""
    for nsp in range(min_sp, max_sp + 1):
        species = SPECIES_NAMES[:nsp]
        for sshape in plane_binary_shapes(nsp):
            snw = shape_newick(sshape, species, "S")
            for nobj in range(min_obj, max_obj + 1):
                for oshape in plane_binary_shapes(nobj):
                    for assign in itertools.product(range(nsp), repeat=nobj):
                        leaves = [f"{species[a]}_{i}" for i, a in enumerate(assign)]
                        yield {
                            "object_tree": shape_newick(oshape, leaves, "O"),
                            "species_tree": snw,
                            "leaf_object_species": {l: species[a] for l, a in zip(leaves, assign)},
                        }


def cost_grid(values, hgts, labelled=False, region=True):
    for spe, dup, floss in itertools.product(values, repeat=3):
        slosses = values if labelled else (1,)
        for sloss in slosses:
            for hgt in hgts:
                c = {"SPECIATION": spe, "DUPLICATION": dup, "HORIZONTAL_TRANSFER": hgt,
                     "FULL_LOSS": floss, "SEGMENTAL_LOSS": sloss}
                if not region or in_region(c, labelled):
                    yield c


# ---------------------------------------------------------------------------
# G-MAP / G-LAB: valid reconciliations that are not solver outputs
# ---------------------------------------------------------------------------
@st.composite
def ordered_labeling(draw, inst, order):
    """A valid ordered labelling: root = every family present, in `order`;
    each internal node a subsequence of its parent that keeps everything
    carried below it (drawn top-down)."""
    from .oracles import below_content

    below = below_content(inst)
    present = below[inst.oroot]
    lab = {l: list(inst.lsyn[l]) for l in inst.oleaves}
    if not inst.ochildren[inst.oroot]:
        return lab
    lab[inst.oroot] = [f for f in order if f in present]
    for n in inst.ointernal_pre:
        if n == inst.oroot:
            continue
        parent = lab[inst.oparent[n]]
        opt = [f for f in parent if f not in below[n]]
        mask = draw(st.integers(0, 2 ** len(opt) - 1)) if opt else 0
        keep = {f for i, f in enumerate(opt) if mask >> i & 1}
        lab[n] = [f for f in parent if f in below[n] or f in keep]
    return lab


@st.composite
def unordered_labeling(draw, inst):
    """A valid unordered labelling: required content <= set <= parent's set
    plus own gains (drawn top-down)."""
    from .plain import gain_nodes, required_content

    gain = gain_nodes(inst)
    req = required_content(inst, gain)
    lab = {l: sorted(inst.lsyn[l]) for l in inst.oleaves}
    for n in inst.ointernal_pre:
        gains_here = {f for f, g in gain.items() if g == n}
        allowed = set(gains_here) if n == inst.oroot else set(lab[inst.oparent[n]]) | gains_here
        opt = sorted(allowed - req[n])
        mask = draw(st.integers(0, 2 ** len(opt) - 1)) if opt else 0
        lab[n] = sorted(req[n] | {f for i, f in enumerate(opt) if mask >> i & 1})
    return lab


@st.composite
def labelled_reconciliation_case(draw, max_obj=5, max_sp=5, max_fam=4, costs="free", maxcost=5, min_obj=1, min_sp=1, concentrate=False):
    """Input + one valid ordered labelling + one valid unordered labelling."""
    from .plain import Instance

    case = draw(rec_case(max_obj=max_obj, max_sp=max_sp, min_obj=min_obj, min_sp=min_sp, costs=costs, labelled=True, max_fam=max_fam,
                         allow_inconsistent=False, maxcost=maxcost, concentrate=concentrate, misleading=True))
    inst = Instance(case)
    fams = sorted({f for s in case["leaf_syntenies"].values() for f in s}, key=lambda f: int(f[1:]))
    # the hidden order is not stored in the case: recover an order compatible with all leaves
    order = _compatible_order(case["leaf_syntenies"], fams)
    case["_lab_o"] = draw(ordered_labeling(inst, order))
    case["_lab_u"] = draw(unordered_labeling(inst))
    return case


def _compatible_order(leaf_syn, fams):
    """Some linear order of the families having every leaf list as a
    subsequence (exists by construction: leaves were cut from one order)."""
    succ = {f: set() for f in fams}
    indeg = {f: 0 for f in fams}
    for s in leaf_syn.values():
        for a, b in zip(s, s[1:]):
            if b not in succ[a]:
                succ[a].add(b)
                indeg[b] += 1
    out = []
    ready = sorted(f for f in fams if indeg[f] == 0)
    while ready:
        f = ready.pop(0)
        out.append(f)
        for g in sorted(succ[f]):
            indeg[g] -= 1
            if indeg[g] == 0:
                ready.append(g)
                ready.sort()
    assert len(out) == len(fams), "leaf syntenies are not consistent"
    return out


# ---------------------------------------------------------------------------
# random valid mappings (constructive), names and colours
# ---------------------------------------------------------------------------
@st.composite
def random_mapping(draw, inst, bias=None):
    """A valid species mapping built bottom-up: every internal node takes one
    of the species that make a valid event with its children's species.
    bias="vertical": three times out of four a node takes a placement without transfer (so that lineages run down
    through many species: long loss chains, crowded trunks)."""
    m = {l: inst.los[l] for l in inst.oleaves}
    for n in inst.ointernal_post:
        l, r = inst.ochildren[n]
        opts = [x for x in inst.snodes if inst.event3(x, m[l], m[r]) is not None]
        if bias == "vertical" and chance(draw, 3, 4):
            vert = [x for x in opts if inst.event3(x, m[l], m[r])[0] in ("S", "D")]
            opts = vert or opts
        m[n] = opts[draw(st.integers(0, len(opts) - 1))]
    return m


NAME_ALPHABET = "abcdefghijklmnopqrstuvwxyzABCDEFGHIJKLMNOPQRSTUVWXYZ0123456789_"


def _word(alphabet, max_size):
    # built from integer draws, not st.text: mixing text strategies with different alphabets at the
    # same draw position makes the Hypothesis 6.168 shrinker raise "ValueError: <n> is not in list"
    return st.lists(st.integers(0, len(alphabet) - 1), min_size=1, max_size=max_size).map(
        lambda idx: "".join(alphabet[i] for i in idx)
    )


@st.composite
def fresh_names(draw, count, alphabet=NAME_ALPHABET, max_size=8, reserved=("NoName",)):
    names = draw(st.lists(_word(alphabet, max_size).filter(lambda s: s not in reserved),
                          min_size=count, max_size=count, unique=True))
    # names that differ only in letter case are distinct names: make such pairs likely
    if count >= 2 and chance(draw, 1, 3):
        i = draw(st.integers(0, count - 1))
        j = draw(st.integers(0, count - 1))
        variant = names[j].swapcase()
        if i != j and variant not in names and variant not in reserved:
            names[i] = variant
    return names


@st.composite
def colours(draw, count, odds=(1, 3)):
    """list of `count` entries: None or a 6-digit HTML colour."""
    out = []
    for _ in range(count):
        if chance(draw, odds[0], odds[1]):
            value = draw(st.integers(0, 0xFFFFFF))
            out.append(("%06X" if draw(st.booleans()) else "%06x") % value)
        else:
            out.append(None)
    return out


SPECIES_SPELLINGS = {
    # names that differ only in letter case (distinct species; only with an explicit leaf assignment, since the
    # name-derived one is documented as case-insensitive)
    "case-twins": ["a", "A", "b", "B", "ab", "Ab", "aB", "AB", "c", "C"],
    # names that are string prefixes of one another, with and without an underscore boundary
    "prefix-nested": ["s1", "s10", "s1_x", "s11", "s", "s1_x_y", "s100", "s2", "s20", "s2_1"],
}


def respell_species(case, variant):
    """The same case with its species leaves (SA, SB, ...) renamed after SPECIES_SPELLINGS[variant] and the object
    leaves renamed to match ('<species>_<id>' keeps its id; a misleading prefix stays misleading)."""
    names = SPECIES_SPELLINGS[variant]
    smap = {s: names[i] for i, s in enumerate(SPECIES_NAMES)}
    omap = {}
    for leaf in case["leaf_object_species"]:
        prefix, _, rest = leaf.partition("_")
        omap[leaf] = smap.get(prefix, prefix) + "_" + rest
    if len(set(omap.values())) != len(omap):
        return case
    keep = {k: v for k, v in case.items() if k.startswith("_") and k not in ("_mapping", "_mapping2", "_lab_o", "_lab_u")}
    out = rename_case(case, omap, smap)
    out.update(keep)
    return out


def rename_case(case, omap, smap, fmap=None, ocol=None, scol=None):
    """Apply name maps (and optional colour lists indexed by pre-order) to a
    case dictionary and its private _mapping/_lab entries."""
    from .plain import parse_newick

    fmap = fmap or {}
    ot, stt = parse_newick(case["object_tree"]), parse_newick(case["species_tree"])
    if ocol:
        for n in ot.nodes():
            if ocol[n] is not None:
                ot.features[n]["color"] = ocol[n]
    if scol:
        for n in stt.nodes():
            if scol[n] is not None:
                stt.features[n]["color"] = scol[n]
    ot.name = [omap.get(x, x) for x in ot.name]
    stt.name = [smap.get(x, x) for x in stt.name]
    out = dict(case)
    out["object_tree"] = ot.to_newick()
    out["species_tree"] = stt.to_newick()
    out["leaf_object_species"] = {omap.get(k, k): smap.get(v, v) for k, v in case["leaf_object_species"].items()}
    f = lambda syn: [fmap.get(x, x) for x in syn]  # noqa: E731
    if "leaf_syntenies" in case:
        out["leaf_syntenies"] = {omap.get(k, k): f(v) for k, v in case["leaf_syntenies"].items()}
    for key in ("_mapping", "_mapping2"):
        if key in case:
            out[key] = {omap.get(k, k): smap.get(v, v) for k, v in case[key].items()}
    for key in ("_lab_o", "_lab_u"):
        if key in case:
            out[key] = {omap.get(k, k): f(v) for k, v in case[key].items()}
    return out


@st.composite
def drawn_reconciliation(draw, max_obj=8, max_sp=8, max_fam=4, costs="free", random_names=True, colour=True,
                         name_alphabet=NAME_ALPHABET, fam_alphabet=None, min_obj=1, maxcost=3, min_sp=1, concentrate=False,
                         mapping_bias=None):
    """Input + valid mapping + valid ordered and unordered labellings, with
    random unique node names and colour annotations."""
    from .plain import Instance

    case = draw(labelled_reconciliation_case(max_obj=max_obj, max_sp=max_sp, max_fam=max_fam, costs=costs,
                                             maxcost=maxcost, min_obj=min_obj, min_sp=min_sp, concentrate=concentrate))
    inst = Instance(case)
    case["_mapping"] = draw(random_mapping(inst, bias=mapping_bias))
    if random_names:
        onames = draw(fresh_names(len(inst.onodes), name_alphabet))
        snames = draw(fresh_names(len(inst.snodes), name_alphabet))
        omap = dict(zip(inst.onodes, onames))
        smap = dict(zip(inst.snodes, snames))
        fams = sorted({f for s in case["leaf_syntenies"].values() for f in s})
        fmap = {}
        if fam_alphabet:
            fnames = draw(fresh_names(len(fams), fam_alphabet, max_size=6))
            fmap = dict(zip(fams, fnames))
        # an ancestral object named like a leaf of some species, "<species>_<suffix>" (any letter case): only
        # leaves take their species from such names, an ancestor so named is still an ancestor
        internal = [n for n in inst.onodes if inst.ochildren[n]]
        sleaves = [x for x in inst.snodes if not inst.schildren[x]]
        if internal and chance(draw, 1, 4):
            n = internal[draw(st.integers(0, len(internal) - 1))]
            sp = smap[sleaves[draw(st.integers(0, len(sleaves) - 1))]]
            sp = draw(st.sampled_from([sp, sp.lower(), sp.upper(), sp.swapcase()]))
            new = f"{sp}_{draw(st.integers(0, 99))}"
            if new not in omap.values():
                omap[n] = new
    else:
        omap, smap, fmap = {}, {}, {}
    ocol = draw(colours(len(inst.onodes))) if colour else None
    scol = draw(colours(len(inst.snodes))) if colour else None
    return rename_case(case, omap, smap, fmap, ocol, scol)


def all_leaf_syntenies(leaves, nfam, ordered):
    """Every assignment of a non-empty family list to each leaf over g0..g{nfam-1}: all sequences of
    distinct families (ordered; f=2: 4 per leaf, f=3: 15) or all subsets in index order (unordered; 3 / 7),
    such that every family occurs on some leaf (smaller family sets are the smaller nfam)."""
    fams = [f"g{i}" for i in range(nfam)]
    options = []
    for r in range(1, nfam + 1):
        for sub in itertools.combinations(fams, r):
            options.extend(itertools.permutations(sub) if ordered else [sub])
    for choice in itertools.product(options, repeat=len(leaves)):
        if len({f for s in choice for f in s}) == nfam:
            yield {l: list(s) for l, s in zip(leaves, choice)}


def all_labelled_inputs(max_obj, max_sp, max_fam, ordered, min_obj=1):
    for base in all_inputs(max_obj, max_sp, min_obj=min_obj):
        leaves = list(base["leaf_object_species"])
        for nfam in range(1, max_fam + 1):
            for syn in all_leaf_syntenies(leaves, nfam, ordered):
                case = dict(base)
                case["leaf_syntenies"] = syn
                yield case
