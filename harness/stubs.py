"""Stub TeX measurer and in-process command-line runner."""
from __future__ import annotations

import contextlib
import io
import json
import os
import shutil
import sys
import tempfile

os.environ.setdefault("TQDM_DISABLE", "1")

from superrec2.utils import tex  # noqa: E402


class StubMeasure:
    """Replacement for superrec2.utils.tex.measure (the only TeX entry point
    used by the layout): returns boxes from a list of (w, h) sizes indexed by
    call position, and records the measured TeX snippets."""

    def __init__(self, sizes=None, swap=False, default=(10.0, 10.0), min_leaf=0.0):
        self.sizes = sizes or []
        self.swap = swap
        self.default = default
        # a real TeX box of an extant gene contains the gene's circle: never smaller than its diameter
        self.min_leaf = min_leaf
        self.texts = []

    def __call__(self, texts, preamble=""):
        out = []
        for i, text in enumerate(texts):
            self.texts.append(text)
            w, h = self.sizes[i % len(self.sizes)] if self.sizes else self.default
            if "extant gene=" in text:
                w, h = max(w, self.min_leaf), max(h, self.min_leaf)
            if self.swap:
                w, h = h, w
            # a TeX box has a height above and a depth below its baseline; what the layout uses is their sum.
            # The stub splits the drawn overall height (a quarter, a half or nothing below the baseline, by position;
            # binary fractions, so that height + depth is the drawn value exactly)
            depth = h * (0.25, 0.5, 0.0)[len(self.texts) % 3]
            out.append(tex.MeasureBox(w, h - depth, depth))
        return out


@contextlib.contextmanager
def stub_tex(sizes=None, swap=False, default=(10.0, 10.0), min_leaf=0.0):
    old = tex.measure
    stub = StubMeasure(sizes, swap, default, min_leaf)
    tex.measure = stub
    try:
        yield stub
    finally:
        tex.measure = old


def run_cli(argv, stdin_text=None):
    """Run `superrec2 <argv>` in-process.  Returns (status, stdout, stderr);
    an uncaught exception gives status 'exception:<Type>'."""
    from superrec2.cli import __main__ as cli_main

    old_argv, old_stdin = sys.argv, sys.stdin
    out, err = io.StringIO(), io.StringIO()
    sys.argv = ["superrec2"] + list(argv)
    if stdin_text is not None:
        sys.stdin = io.StringIO(stdin_text)
    status = None
    try:
        with contextlib.redirect_stdout(out), contextlib.redirect_stderr(err):
            try:
                status = cli_main.run()
            except SystemExit as exc:
                status = exc.code
            except Exception as exc:  # noqa: BLE001 - reported to the caller
                import traceback

                err.write(traceback.format_exc())
                status = f"exception:{type(exc).__name__}"
    finally:
        sys.argv, sys.stdin = old_argv, old_stdin
    if status is None:
        status = 0
    return status, out.getvalue(), err.getvalue()


class TempDir:
    """Scratch directory under the system temp dir, removed on exit."""

    def __enter__(self):
        self.path = tempfile.mkdtemp(prefix="verif-cli-")
        return self.path

    def __exit__(self, *exc):
        shutil.rmtree(self.path, ignore_errors=True)


CLI_DEFAULT_COSTS = {"SPECIATION": 0, "DUPLICATION": 1, "HORIZONTAL_TRANSFER": 1, "FULL_LOSS": 1, "SEGMENTAL_LOSS": 1}


def cost_args(costs, omit_defaults=False):
    """--cost-* options for a cost vector; with omit_defaults the options whose value is the documented default
    (spe 0, dup/hgt/floss/sloss 1) are left out, as a user would."""
    names = {"SPECIATION": "spe", "DUPLICATION": "dup", "HORIZONTAL_TRANSFER": "hgt", "FULL_LOSS": "floss", "SEGMENTAL_LOSS": "sloss"}
    args = []
    for key, opt in names.items():
        if key in costs:
            v = costs[key]
            if omit_defaults and v == CLI_DEFAULT_COSTS[key]:
                continue
            args += [f"--cost-{opt}", 'float("inf")' if v == float("inf") else str(v)]
    return args


def cli_reconcile(case, algo, policy="any", with_costs=True, via_std=False, stale_output=False, omit_default_flags=False,
                  decoy_file_costs=False):
    """Write the case to a temp file (or feed it on stdin when via_std, reading the
    result from stdout: the documented defaults of --input/--output), run `reconcile`,
    return (status, [output lines], printed minimum cost or None, stderr, raw output)."""
    data = {k: v for k, v in case.items() if not k.startswith("_") and k != "costs"}
    costs = cost_args(case["costs"], omit_defaults=omit_default_flags) if with_costs and "costs" in case else []
    if decoy_file_costs:
        # a cost vector inside the input file is not part of the documented interface of `reconcile` (costs come from the
        # --cost-* options, defaults otherwise): whatever the file says, the options decide
        data["costs"] = {"SPECIATION": 3, "DUPLICATION": 4, "HORIZONTAL_TRANSFER": 2, "FULL_LOSS": 5, "SEGMENTAL_LOSS": 2}
    if via_std:
        status, out, err = run_cli(["reconcile", "--solutions", policy] + costs + [algo], stdin_text=json.dumps(data))
        raw = out
    else:
        with TempDir() as tmp:
            inp = os.path.join(tmp, "in.json")
            outp = os.path.join(tmp, "out.json")
            with open(inp, "w") as fh:
                json.dump(data, fh)
            if stale_output:
                # the output path already holds something (a second run into the same file): the tool writes the
                # solutions of THIS run, it does not add them to what was there
                with open(outp, "w") as fh:
                    fh.write("STALE CONTENT OF AN EARLIER RUN\n" * 3)
            argv = ["reconcile", "--input", inp, "--output", outp, "--solutions", policy] + costs + [algo]
            status, _out, err = run_cli(argv)
            raw = open(outp).read() if os.path.exists(outp) else ""
    printed = None
    for line in err.splitlines():
        if line.startswith("Minimum cost:"):
            txt = line.split(":", 1)[1].strip()
            printed = float("inf") if txt == "inf" else (int(txt) if txt.lstrip("-").isdigit() else float(txt))
    lines = [l for l in raw.splitlines() if l.strip()]
    return status, lines, printed, err, raw
