"""Shared machinery: sharded Hypothesis runs, bounded-exhaustive jobs,
replays, known findings, evidence files, exit codes."""
from __future__ import annotations

import hashlib
import importlib
import json
import multiprocessing as mp
import os
import sys
import time
import traceback
from collections import Counter

ROOT = os.path.dirname(os.path.dirname(os.path.abspath(__file__)))
NPROC = int(os.environ.get("VERIF_NPROC", "16"))
# Both are only redirected by the sensitivity drivers so that runs against a
# mutated scratch tree never overwrite the evidence of the real tree.
EVIDENCE_DIR = os.environ.get("VERIF_EVIDENCE_DIR") or os.path.join(ROOT, "evidence")
RUN_DIR = os.environ.get("VERIF_RUN_DIR") or os.path.join(ROOT, "replays", "run")


class Violation(Exception):
    """The property is violated by the case under test."""

    def __init__(self, clause, observed=None, expected=None, extra=None):
        super().__init__(clause)
        self.clause = clause
        self.observed = observed
        self.expected = expected
        self.extra = extra or {}

    def __reduce__(self):
        return (Violation, (self.clause, self.observed, self.expected, self.extra))


class Skip(Exception):
    """The case is outside what the reference can decide (counted, never judged)."""

    def __init__(self, reason):
        super().__init__(reason)
        self.reason = reason


class HarnessError(Exception):
    """Something is wrong with the harness itself: exit 2, never a violation."""


class Result:
    __slots__ = ("nontrivial", "labels", "evals")

    def __init__(self, nontrivial, labels=(), evals=1):
        self.nontrivial = bool(nontrivial)
        self.labels = list(labels)
        self.evals = evals


def jdump(obj):
    return json.dumps(obj, sort_keys=True, default=_jsonable)


def _jsonable(o):
    if isinstance(o, (set, frozenset)):
        return sorted(o)
    if isinstance(o, tuple):
        return list(o)
    return str(o)


def case_hash(case) -> str:
    return hashlib.sha1(jdump(case).encode()).hexdigest()[:16]


class Stats:
    def __init__(self):
        self.evaluations = 0
        self.cases = 0
        self.nontrivial = set()
        self.classes = Counter()
        self.excluded = Counter()
        self.samples_nt = []
        self.samples_tr = []
        self.timeouts = 0

    def record(self, case, res: Result):
        self.cases += 1
        self.evaluations += res.evals
        for lab in res.labels:
            self.classes[lab] += 1
        if res.nontrivial:
            h = case_hash(case)
            if h not in self.nontrivial:
                self.nontrivial.add(h)
                if len(self.samples_nt) < 3:
                    self.samples_nt.append(case)
        elif len(self.samples_tr) < 1:
            self.samples_tr.append(case)

    def export(self):
        return {
            "evaluations": self.evaluations,
            "cases": self.cases,
            "nontrivial": self.nontrivial,
            "classes": dict(self.classes),
            "excluded": dict(self.excluded),
            "samples_nt": self.samples_nt,
            "samples_tr": self.samples_tr,
            "timeouts": self.timeouts,
        }

    def merge(self, other: dict):
        self.evaluations += other["evaluations"]
        self.cases += other["cases"]
        self.nontrivial |= other["nontrivial"]
        self.classes.update(other["classes"])
        self.excluded.update(other["excluded"])
        self.timeouts += other["timeouts"]
        for s in other["samples_nt"]:
            if len(self.samples_nt) < 3:
                self.samples_nt.append(s)
        for s in other["samples_tr"]:
            if len(self.samples_tr) < 1:
                self.samples_tr.append(s)


def pkg_exception_clause(exc):
    """If the exception escaped from package code (a superrec2 frame lies
    deeper in the traceback than the last harness frame) return the clause
    'exception.<Type>@<file>:<function>', else None (harness error)."""
    frames = traceback.extract_tb(exc.__traceback__)
    last_harness = -1
    last_pkg = -1
    where = None
    for i, fs in enumerate(frames):
        fn = fs.filename.replace("\\", "/")
        if "/superrec2/" in fn:
            last_pkg = i
            where = f"{os.path.basename(fn)}:{fs.name}"
        elif fn.startswith(ROOT):
            last_harness = i
    if last_pkg > last_harness:
        return f"exception.{type(exc).__name__}@{where}"
    return None


class CaseTimeout(BaseException):
    """A single case exceeded its wall-clock allowance: counted as excluded (inconclusive), never a verdict."""


CASE_LIMIT = {"quick": 90, "thorough": 900}
_watch = {"armed": False}


def _on_alarm(signum, frame):
    if _watch["armed"]:
        _watch["armed"] = False
        raise CaseTimeout()


def guarded_case(mod, case, tier, stats):
    """run_check under a per-case watchdog (pure-Python package code is interruptible); returns the Result or None when
    the case was skipped or timed out (both counted in stats.excluded)."""
    import signal

    try:
        signal.signal(signal.SIGALRM, _on_alarm)
        _watch["armed"] = True
        signal.setitimer(signal.ITIMER_REAL, CASE_LIMIT.get(tier, 90))
    except (ValueError, AttributeError):  # not in the main thread / no SIGALRM: run without watchdog
        _watch["armed"] = False
    try:
        try:
            return run_check(mod, case)
        finally:
            _watch["armed"] = False
            try:
                signal.setitimer(signal.ITIMER_REAL, 0)
            except (ValueError, AttributeError):
                pass
    except Skip as s:
        stats.excluded[s.reason] += 1
    except CaseTimeout:
        stats.excluded["case_timeout"] += 1
    return None


def run_check(mod, case):
    """mod.check(case) with package exceptions turned into violations."""
    try:
        return mod.check(case)
    except (Violation, Skip, HarnessError):
        raise
    except RecursionError:
        raise
    except Exception as exc:
        clause = pkg_exception_clause(exc)
        if clause is None:
            raise
        raise Violation(clause, observed=repr(exc)[:300], expected="no exception on a well-formed input") from None


def load(prop_id):
    return importlib.import_module(f"harness.props.{prop_id.lower()}")


# ---------------------------------------------------------------------------
# workers
# ---------------------------------------------------------------------------
def _fail_record(case, v: Violation):
    return {
        "case": case,
        "clause": v.clause,
        "observed": v.observed,
        "expected": v.expected,
        "extra": v.extra,
        "hashseed": os.environ.get("PYTHONHASHSEED", "0"),
        "optimize": bool(sys.flags.optimize),
    }


def hash_seeds(seed):
    """PYTHONHASHSEED values of the worker interpreters (a pure function of VERIF_SEED): string hashing decides the
    iteration order of every set/dict of names or families inside the package, so a quarter of the workers each run
    under 0, 1, a value derived from the seed, and 4242."""
    return [0, 1, (seed * 7919 + 13) % 4294967295, 4242]


class Pools:
    """Process pools of freshly started interpreters (spawn), one pool per hash seed; tasks are dealt round-robin, so
    which task meets which hash seed is a function of VERIF_SEED and the task index only."""

    def __init__(self, seed):
        ctx = mp.get_context("spawn")
        seeds = hash_seeds(seed)[: max(1, min(4, NPROC))]
        per = max(1, NPROC // len(seeds))
        old = os.environ.get("PYTHONHASHSEED")
        self.pools = []
        try:
            for i, h in enumerate(seeds):
                os.environ["PYTHONHASHSEED"] = str(h)
                # the last pool also runs with assertions stripped (python -O): a legitimate way to run the package,
                # under which nothing it computes may depend on an `assert` statement
                if i == len(seeds) - 1 and len(seeds) > 1:
                    os.environ["PYTHONOPTIMIZE"] = "1"
                    # third-party sources are recompiled for -O; their SyntaxWarnings (ete3) are not ours to report
                    os.environ["PYTHONWARNINGS"] = "ignore::SyntaxWarning"
                self.pools.append(ctx.Pool(per))
                os.environ.pop("PYTHONOPTIMIZE", None)
                os.environ.pop("PYTHONWARNINGS", None)
        finally:
            os.environ.pop("PYTHONOPTIMIZE", None)
            os.environ.pop("PYTHONWARNINGS", None)
            if old is None:
                os.environ.pop("PYTHONHASHSEED", None)
            else:
                os.environ["PYTHONHASHSEED"] = old
        self.seeds = seeds

    def run(self, fn, tasks):
        pending = [self.pools[i % len(self.pools)].apply_async(fn, (t,)) for i, t in enumerate(tasks)]
        for p in pending:
            yield p.get()

    def close(self):
        for p in self.pools:
            p.close()
        for p in self.pools:
            p.join()

    def __enter__(self):
        return self

    def __exit__(self, *a):
        self.close()


def shard_worker(args):
    prop_id, tier, seed, shard, n_examples, deadline, shrink = args
    try:
        import hypothesis
        from hypothesis import HealthCheck, Phase, given, settings

        mod = load(prop_id)
        stats = Stats()
        state = {"fail": None}
        phases = [Phase.generate] + ([Phase.shrink] if shrink else [])

        @hypothesis.seed(seed * 1000 + shard)
        @settings(
            max_examples=n_examples,
            database=None,
            deadline=None,
            derandomize=False,
            report_multiple_bugs=False,
            suppress_health_check=list(HealthCheck),
            phases=phases,
        )
        @given(mod.strategy(tier))
        def test(case):
            if time.time() > deadline:
                stats.timeouts += 1
                return
            try:
                res = guarded_case(mod, case, tier, stats)
            except Violation as v:
                state["fail"] = _fail_record(case, v)
                raise
            if res is not None:
                stats.record(case, res)

        try:
            test()
        except Violation:
            pass
        except Exception as exc:  # Flaky etc.
            if state["fail"] is None or "Flaky" not in type(exc).__name__:
                raise
            # flaky: keep the failure only if it reproduces on a plain re-run
            try:
                run_check(mod, state["fail"]["case"])
                return {"error": "flaky failure did not reproduce: " + traceback.format_exc()}
            except Violation:
                pass
        return {"stats": stats.export(), "fail": state["fail"]}
    except Exception:
        return {"error": traceback.format_exc()}


def job_worker(args):
    prop_id, tier, job, deadline = args
    try:
        mod = load(prop_id)
        stats = Stats()
        fails = {}
        for case in mod.run_job(job):
            if time.time() > deadline:
                stats.timeouts += 1
                break
            try:
                res = guarded_case(mod, case, tier, stats)
            except Violation as v:
                if v.clause not in fails:
                    fails[v.clause] = _fail_record(case, v)
                continue
            if res is not None:
                stats.record(case, res)
        return {"stats": stats.export(), "fails": list(fails.values())}
    except Exception:
        return {"error": traceback.format_exc()}


# ---------------------------------------------------------------------------
# known findings
# ---------------------------------------------------------------------------
def load_known():
    path = os.path.join(ROOT, "known_findings.json")
    if not os.path.exists(path):
        return []
    with open(path) as fh:
        return json.load(fh)["findings"]


def load_replay(path):
    if not os.path.isabs(path):
        path = os.path.join(ROOT, path)
    with open(path) as fh:
        return json.load(fh)


def case_size(case):
    return len(jdump(case))


# ---------------------------------------------------------------------------
# main entry
# ---------------------------------------------------------------------------
def run_property(prop_id, tier, seed):
    t0 = time.time()
    mod = load(prop_id)
    stats = Stats()
    violations = []  # fail records
    known_lines = []
    errors = []
    known_cases = {}  # case hash -> finding id (status known)

    # 1. replays of committed witnesses ------------------------------------
    n_replays = 0
    for finding in load_known():
        if prop_id not in finding["property"]:
            continue
        for wit in finding.get("witnesses", []):
            if prop_id not in wit["properties"]:
                continue
            w = wit["path"]
            rep = load_replay(w)
            case = rep["case"]
            n_replays += 1
            try:
                res = run_check(mod, case)
                stats.record(case, res)
                failed = None
            except Skip:
                failed = None
            except Violation as v:
                failed = v
            if finding["status"] == "known":
                known_cases[case_hash(case)] = finding["id"]
                if failed is not None:
                    known_lines.append(
                        f"KNOWN-FINDING: property={prop_id} {finding['id']} {failed.clause} witness={w}"
                    )
                else:
                    print(f"note: known finding {finding['id']} witness {w} no longer fails for {prop_id}")
            elif failed is not None:  # fixed -> regression
                rec = _fail_record(case, failed)
                rec["replay_path"] = w
                violations.append(rec)

    budget = mod.BUDGET[tier]
    time_limit = getattr(mod, "TIME_LIMIT", {"quick": 600, "thorough": 6 * 3600})[tier]
    deadline = t0 + time_limit
    exhaustive = False

    with Pools(seed) as pools:
        # 2. bounded-exhaustive layer -----------------------------------------
        jobs = mod.exhaustive(tier) if hasattr(mod, "exhaustive") else []
        if jobs:
            exhaustive = True
            for out in pools.run(job_worker, [(prop_id, tier, j, deadline) for j in jobs]):
                if "error" in out:
                    errors.append(out["error"])
                    continue
                stats.merge(out["stats"])
                violations.extend(out["fails"])
        # 3. random layer ---------------------------------------------------
        n_random = budget.get("random", 0)
        if n_random:
            shards = min(NPROC, max(1, n_random // 10))
            per = -(-n_random // shards)
            # VERIF_NO_SHRINK is set by the sensitivity drivers only (they need the verdict, not a minimal case)
            shrink = budget.get("shrink", True) and not os.environ.get("VERIF_NO_SHRINK")
            tasks = [(prop_id, tier, seed, i, per, deadline, shrink) for i in range(shards)]
            for out in pools.run(shard_worker, tasks):
                if "error" in out:
                    errors.append(out["error"])
                    continue
                stats.merge(out["stats"])
                if out["fail"]:
                    violations.append(out["fail"])
        used_hash_seeds = list(pools.seeds)

    # 4. property-specific extra part (subprocess determinism, fuzzing...) --
    if hasattr(mod, "extra"):
        try:
            for rec in mod.extra(tier, seed, stats, deadline) or []:
                violations.append(rec)
        except HarnessError as exc:
            errors.append(str(exc))
        except Exception:
            errors.append(traceback.format_exc())

    # 4b. coverage-guided campaign (atheris), for the properties that declare one
    fuzz_cfg = getattr(mod, "FUZZ", {}).get(tier)
    fuzz_report = None
    if fuzz_cfg:
        try:
            fuzz_report, rec = fuzz_campaign(prop_id, seed, fuzz_cfg, stats)
            if rec:
                violations.append(rec)
        except HarnessError as exc:
            errors.append(str(exc))

    # 5. bucket violations: smallest case per clause -------------------------
    buckets = {}
    for rec in violations:
        key = rec["clause"]
        if key not in buckets or case_size(rec["case"]) < case_size(buckets[key]["case"]):
            buckets[key] = rec
    out_lines = []
    n_viol = 0
    os.makedirs(RUN_DIR, exist_ok=True)
    for clause, rec in sorted(buckets.items()):
        h = case_hash(rec["case"])
        if h in known_cases:
            known_lines.append(f"KNOWN-FINDING: property={prop_id} {known_cases[h]} {clause} (met again by search)")
            continue
        if "replay_path" in rec:
            path = rec["replay_path"]
        else:
            path = os.path.join(RUN_DIR, f"{prop_id}-{h}.json")
            if path.startswith(ROOT + os.sep):
                path = os.path.relpath(path, ROOT)
            with open(os.path.join(ROOT, path), "w") as fh:
                fh.write(jdump({
                    "property": prop_id, "clause": clause, "case": rec["case"],
                    "observed": rec["observed"], "expected": rec["expected"], "extra": rec["extra"],
                    "seed": seed, "tier": tier, "hashseed": rec.get("hashseed", "0"), "optimize": bool(rec.get("optimize")),
                }))
        n_viol += 1
        out_lines.append(f"VIOLATION property={prop_id} replay={path}")
        print(f"  clause={clause} observed={_short(rec['observed'])} expected={_short(rec['expected'])}")
        print(f"  case={_short(rec['case'], 600)}")

    # 6. evidence -------------------------------------------------------------
    wall = time.time() - t0
    samples = stats.samples_nt + stats.samples_tr
    if not samples:
        samples = ["(no case was evaluated)"]
    min_cases = budget.get("min_cases", max(1, (budget.get("random", 0)) // 4))
    inconclusive = stats.timeouts > 0 and stats.cases < min_cases
    evidence = {
        "property_id": prop_id,
        "tier": tier,
        "seed": seed,
        "level": getattr(mod, "LEVEL", "exploration"),
        "coverage": {
            "evaluations": stats.evaluations,
            "cases": stats.cases,
            "distinct_nontrivial": len(stats.nontrivial),
            "rule": mod.RULE,
            "samples": samples,
            "classes": dict(sorted(stats.classes.items())),
            "excluded": dict(stats.excluded),
            "exhaustive": bool(exhaustive and getattr(mod, "EXHAUSTIVE_COMPLETE", False) and not stats.timeouts),
            "exhaustive_layer": getattr(mod, "EXHAUSTIVE_RULE", {}).get(tier) if exhaustive else None,
            "replayed_witnesses": n_replays,
            "time_budget_hit": stats.timeouts > 0,
            "oracle_selfcheck": getattr(mod, "SELFCHECK", None),
            "coverage_guided": fuzz_report,
            "worker_hash_seeds": used_hash_seeds,
        },
        "assumptions": getattr(mod, "ASSUMPTIONS", []),
        "wall_s": round(wall, 2),
        "violations": n_viol,
        "known_findings": known_lines,
        "harness_errors": [e[-2000:] for e in errors],
    }
    os.makedirs(EVIDENCE_DIR, exist_ok=True)
    with open(os.path.join(EVIDENCE_DIR, f"{prop_id}.json"), "w") as fh:
        json.dump(json.loads(jdump(evidence)), fh, indent=1)

    for line in known_lines:
        print(line)
    for line in out_lines:
        print(line)
    print(
        f"{prop_id} tier={tier} seed={seed}: cases={stats.cases} evaluations={stats.evaluations} "
        f"nontrivial={len(stats.nontrivial)} excluded={sum(stats.excluded.values())} "
        f"violations={n_viol} errors={len(errors)} wall={wall:.1f}s"
    )
    if n_viol:
        return 1
    if errors:
        print("HARNESS ERROR:\n" + errors[0][-3000:], file=sys.stderr)
        return 2
    if inconclusive:
        print("INCONCLUSIVE: time budget exhausted before the minimum case count", file=sys.stderr)
        return 2
    return 0


def fuzz_campaign(prop_id, seed, cfg, stats):
    """Run harness.fuzz in a fresh interpreter (atheris/libFuzzer, package instrumented for
    coverage).  cfg: {"runs": N, "max_time": seconds}.  Returns (report dict, fail record or None)."""
    import subprocess
    import tempfile

    with tempfile.TemporaryDirectory(prefix="verif-fuzz-") as tmp:
        corpus = os.path.join(tmp, "corpus")
        os.makedirs(corpus)
        # a few deterministic pseudo-random seeds next to the (implicit) empty input
        for i in range(8):
            blob = b"".join(hashlib.sha256(f"{prop_id}-{seed}-{i}-{j}".encode()).digest() for j in range(8 * (1 + i)))
            with open(os.path.join(corpus, f"seed{i}"), "wb") as fh:
                fh.write(blob)
        result = os.path.join(tmp, "result.json")
        cmd = [sys.executable, "-m", "harness.fuzz", prop_id, result, f"-runs={cfg['runs']}", "-max_len=4096",
               f"-seed={seed}", f"-max_total_time={cfg.get('max_time', 600)}", f"-artifact_prefix={tmp}/", corpus]
        proc = subprocess.run(cmd, cwd=ROOT, capture_output=True, text=True)
        if not os.path.exists(result):
            raise HarnessError("fuzz campaign produced no result: " + proc.stderr[-1500:])
        with open(result) as fh:
            rep = json.load(fh)
    if rep["execs"] == 0:
        raise HarnessError("fuzz campaign did not execute: " + proc.stderr[-1500:])
    stats.evaluations += rep["valid_cases"]
    stats.classes["fuzz_execs"] += rep["execs"]
    fail = rep.pop("fail")
    rep.pop("samples", None)
    rep["engine"] = "atheris/libFuzzer, superrec2 instrumented, bytes decoded by harness/fdp.py"
    return rep, fail


def _short(obj, n=300):
    s = jdump(obj)
    return s if len(s) <= n else s[: n - 3] + "..."


def replay(prop_id, path):
    rep = load_replay(path)
    want = str(rep.get("hashseed", os.environ.get("PYTHONHASHSEED", "0")))
    want_opt = bool(rep.get("optimize"))
    if want != os.environ.get("PYTHONHASHSEED", "0") or want_opt != bool(sys.flags.optimize):
        # the case was found by a worker running under another PYTHONHASHSEED / with -O: replay it the same way
        env = dict(os.environ, PYTHONHASHSEED=want)
        env.pop("PYTHONOPTIMIZE", None)
        if want_opt:
            env["PYTHONOPTIMIZE"] = "1"
            env["PYTHONWARNINGS"] = "ignore::SyntaxWarning"
        os.execve(sys.executable, [sys.executable, "-m", "harness.main", prop_id, "--replay", path], env)
    mod = load(prop_id)
    try:
        run_check(mod, rep["case"])
    except Skip as s:
        print(f"SKIP {s.reason}")
        return 0
    except Violation as v:
        print(f"VIOLATION property={prop_id} replay={path}")
        print(f"  clause={v.clause} observed={_short(v.observed)} expected={_short(v.expected)}")
        return 1
    print("PASS")
    return 0
