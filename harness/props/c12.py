"""C12 - the command-line tool names nodes, reports the true cost, writes readable output."""
import json
import os
import subprocess
import sys

from hypothesis import strategies as st

from .. import gen, pkg, stubs
from ..oracles import root_orders
from ..plain import INF, Instance, label_internal, parse_newick, total_cost
from ..runner import ROOT, HarnessError, Result, Violation
from ..solver_common import check_refinement
from ..tikzcheck import Picture, TikzError

ID = "C12"
LEVEL = "exploration"
LEVEL_TEXT = (
    "Random search through the real command-line entry point (run in-process with patched argv and real temporary files, a sample re-run as real "
    "subprocesses): documented-format input files with named, partially named, unnamed and O#/S#-like ancestor names, with or without the explicit "
    "leaf assignment, all seven algorithms, both solution policies, cost options; the written lines are parsed, renamed trees are compared with an "
    "independent statement of the naming rule, costs are recounted, `all` is compared with `any`, and every line is fed to `draw`."
)
LEVEL_NOTE = (
    "Trusted: the harness's statement of the naming rule (unnamed -> lowest unused O#/S# in pre-order, given names untouched), its Newick parser, "
    "recount and TikZ line parser; the stub TeX measurer replaces the TeX engine for `draw`."
)
TECHNIQUE = "property-based testing: Hypothesis random input files through the CLI (in-process + subprocess sample) vs independent naming rule, recount and parsers"
DESIGN_REF = "DESIGN.md section 6 (C12)"
RULE = (
    "Hypothesis cases: binary input <=5 object / <=4 species leaves (half of the `lca` cases 8..14 object / <=10 species leaves, where generated labels reach two digits), leaf names <species>_<id> (a quarter of the cases with species leaves named S<k> themselves), every ancestor of both trees independently unnamed (empty name or ete3's placeholder NoName), "
    "freshly named, named like O<k>/S<k> (k<=4, k<=15 on the large cases) or - object ancestors - named like a leaf of some species (<species>_<n>), leaf_object_species present or omitted, leaf_syntenies present (<=4 families, possibly "
    "inconsistent) or omitted, cost options inside the coherent region spe + 2*sloss <= dup + 2*floss (hgt possibly float('inf'); outside the region `any` can cost more than `all`: known finding F-COHERENCE, witness replayed), one of the seven algorithms, files given by --input/--output (the output path holding stale content of an earlier run in half of those cases) or (a quarter of the cases) stdin/stdout.  `reconcile` is run with --solutions any "
    "and all.  Checked: status 0 and >=1 JSON line when a solution exists (status 1 and an empty output file when a super-reconciliation algorithm "
    "gets no syntenies or no root order exists); in every line all node names distinct and non-empty and both trees equal the input trees renamed "
    "by the independent rule; recount of the parsed line == package cost of from_dict(line) == printed 'Minimum cost'; solutions(all) contain "
    "solutions(any); `draw` (tikz output, stub measurer, both orientations) exits 0 on the first lines with well-formed output.  Extra: a sample is "
    "re-run with `python -m superrec2.cli` as subprocesses and must give the same status and output.  Non-trivial: >=1 unnamed ancestor or an "
    "O#/S#-like given name, and >=3 object leaves; distinct by SHA-1 of the case."
    '  Also: cost options are the ones the written solutions must carry (compared), default-valued options omitted in half of the runs, a decoy cost vector in the input file in a quarter, one case in eight with the default vector and a single zero; a quarter of the ext_spfs/superdtl cases have a multifurcation (written trees checked as refinements of the labelled input); a fifth of the files carry branch lengths; one cost vector in 12 with a huge unit cost.'
)
ASSUMPTIONS = ["binary trees; leaf names follow <species>_<id>", "cost options inside the coherent region (F-COHERENCE outside)", "cost options are Python literals accepted by the tool (float(\"inf\") for infinity)"]
BUDGET = {"quick": {"random": 4000}, "thorough": {"random": 40000}}
SUPER = {"base_spfs", "ext_spfs", "base_uspfs", "superdtl"}


@st.composite
def _case(draw):
    algo = draw(st.sampled_from(["thl", "ext_spfs", "superdtl", "lca", "exh", "base_spfs", "base_uspfs"]))
    big = algo == "lca" and draw(st.booleans())
    if big:
        # naming at sizes where generated labels reach two digits (the LCA algorithm is cheap enough)
        case = draw(gen.rec_case(max_obj=14, max_sp=10, min_obj=8, costs="coherent", labelled=True, max_fam=3))
    elif algo in ("ext_spfs", "superdtl") and gen.chance(draw, 1, 4):
        # a multifurcation in either tree: the extended solvers write solutions on binary refinements of the input
        op, sp = draw(st.sampled_from([(1, 0), (0, 1), (1, 1)]))
        case = draw(gen.rec_case(max_obj=4, max_sp=4, min_obj=3, costs="coherent", labelled=True, max_fam=3, obj_poly=op, sp_poly=sp,
                                 allow_inconsistent=(algo == "ext_spfs")))
    else:
        case = draw(gen.rec_case(max_obj=5, max_sp=4, costs="coherent", labelled=True, max_fam=4))
    if gen.chance(draw, 1, 4):
        # species leaves that look like generated labels themselves: S<k>, objects S<k>_<id>
        ks = draw(st.permutations(list(range(12))))
        smap = {name: f"S{ks[i]}" for i, name in enumerate(gen.SPECIES_NAMES[:10])}
        omap = {leaf: smap[sp] + leaf[len(sp):] for leaf, sp in case["leaf_object_species"].items()}
        case = gen.rename_case(case, omap, smap)
    elif gen.chance(draw, 1, 4):
        # species names that are prefixes of one another (s1, s10, s1_x, ...); or, when the leaf assignment stays
        # explicit, names that differ only in case
        case["_spelling"] = draw(st.sampled_from(["prefix-nested", "case-twins"]))
        case = gen.respell_species(case, case["_spelling"])
    if gen.chance(draw, 1, 4):
        # the <id> part of a leaf name is any text, not only digits
        ids = ["a", "x_7", "1b", "x9", "x_y_1", "07", "Z", "0x1"]  # an id may contain underscores itself
        omap = {leaf: leaf.rsplit("_", 1)[0] + "_" + ids[i % 8] + (str(i) if i >= 8 else "") for i, leaf in enumerate(case["leaf_object_species"])}
        if len(set(omap.values())) == len(omap):
            keep = {k: v for k, v in case.items() if k.startswith("_")}
            case = gen.rename_case(case, omap, {})
            case.update(keep)
    if gen.chance(draw, 1, 3) and "leaf_syntenies" in case:
        fams0 = sorted({f for v in case["leaf_syntenies"].values() for f in v})
        if all(f[:1] == "g" and f[1:].isdigit() for f in fams0):
            case = gen.rename_families(case, gen.alt_family_map(fams0, salt=len(case["object_tree"])))
    sleaves = sorted(set(case["leaf_object_species"].values()))
    top = 15 if big else 4
    for key, prefix in (("object_tree", "O"), ("species_tree", "S")):
        t = parse_newick(case[key])
        used = {t.name[n] for n in t.nodes() if t.is_leaf(n)}
        for n in t.preorder():
            if t.is_leaf(n):
                continue
            choice = draw(st.sampled_from(["absent", "like", "fresh", "absent", "leaflike", "noname"]))
            name = ""
            if choice == "noname":
                # the placeholder ete3 writes for an unnamed node (what to_dict() of an unlabelled input contains)
                t.name[n] = "NoName"
                continue
            if choice == "fresh":
                name = f"anc{prefix.lower()}{n}"
            elif choice == "like":
                name = f"{prefix}{draw(st.integers(0, top))}"
            elif choice == "leaflike" and prefix == "O":
                # an ancestral object named like a leaf of some species: only leaves take their species from names
                sp = sleaves[draw(st.integers(0, len(sleaves) - 1))]
                name = f"{draw(st.sampled_from([sp, sp.lower()]))}_{draw(st.integers(50, 59))}"
            if name in used:
                name = ""
            used.add(name)
            t.name[n] = name
        case[key] = t.to_newick()
    if draw(st.booleans()) and case.get("_spelling") != "case-twins":
        from ..plain import infer_species

        _st = parse_newick(case["species_tree"])
        sp_names = [_st.name[n] for n in _st.nodes() if _st.is_leaf(n)]
        if infer_species(list(case["leaf_object_species"]), sp_names) == case["leaf_object_species"]:
            del case["leaf_object_species"]
    if gen.chance(draw, 1, 10):
        del case["leaf_syntenies"]
    case["_algo"] = algo
    case["_orientation"] = draw(st.sampled_from(["horizontal", "vertical"]))
    case["_via_std"] = gen.chance(draw, 1, 4)
    case["_stale_output"] = draw(st.booleans())
    if gen.chance(draw, 1, 5):
        # branch lengths in the Newick strings of the file (standard Newick; the tool reads names and topology)
        for key in ("object_tree", "species_tree"):
            case[key] = parse_newick(case[key]).to_newick(lengths=[1, 0.5, 2.25, 0, 10])
        case["_lengths"] = True
    case["_omit_default_flags"] = draw(st.booleans())
    case["_decoy_file_costs"] = gen.chance(draw, 1, 4)
    if gen.chance(draw, 1, 8):
        # the default vector with one component set to zero (then, with default-valued options omitted, a single
        # zero-valued option is all the tool is given)
        which = draw(st.sampled_from(["DUPLICATION", "HORIZONTAL_TRANSFER", "FULL_LOSS", "SEGMENTAL_LOSS"]))
        c = dict(gen.DEFAULT)
        c[which] = 0
        if gen.in_region(c, labelled=True):
            case["costs"] = c
    return case


def strategy(tier):
    return _case()


def _expected_trees(case):
    out = {}
    for key, prefix in (("object_tree", "O"), ("species_tree", "S")):
        t = parse_newick(case[key])
        label_internal(t, prefix)
        out[key] = t
    return out


def _canon_line(data):
    syn = data.get("syntenies")
    ordered = data.get("ordered", True)
    return (
        tuple(sorted(data["object_species"].items())),
        None if syn is None else tuple(sorted((k, tuple(v) if ordered else tuple(sorted(v))) for k, v in syn.items())),
    )


def _draw_line(line, orientation):
    with stubs.TempDir() as tmp:
        src = os.path.join(tmp, "one.json")
        dst = os.path.join(tmp, "one.tex")
        with open(src, "w") as fh:
            fh.write(line)
        with stubs.stub_tex(default=(12.0, 9.0)):
            status, _o, err = stubs.run_cli(["draw", "--input", src, "--output", dst, "--orientation", orientation])
        code = open(dst).read() if os.path.exists(dst) else ""
    return status, code, err


def check(case):
    algo = case["_algo"]
    base = {k: v for k, v in case.items() if not k.startswith("_")}
    has_syn = "leaf_syntenies" in base
    inst_case = dict(base)
    inst = Instance(inst_case)  # labels unnamed ancestors by the independent rule
    expected = _expected_trees(base)
    unnamed = sum(1 for key in ("object_tree", "species_tree") for n in parse_newick(base[key]).nodes()
                  if parse_newick(base[key]).name[n] in ("", "NoName"))
    like = any(
        (t.name[n][:1] in "OS" and t.name[n][1:].isdigit())
        for t in (parse_newick(base["object_tree"]), parse_newick(base["species_tree"])) for n in t.nodes() if not t.is_leaf(n)
    )
    labels = [f"algo={algo}", "unnamed>0" if unnamed else "all_named"]
    if like:
        labels.append("O#/S#-like_given")
    if "leaf_object_species" not in base:
        labels.append("assignment_inferred")
    if not has_syn:
        labels.append("no_syntenies")
    if case.get("_via_std"):
        labels.append("stdin/stdout")
    results = {}
    for policy in ("any", "all"):
        results[policy] = stubs.cli_reconcile(base, algo, policy, via_std=bool(case.get("_via_std")), stale_output=bool(case.get("_stale_output")),
                                              omit_default_flags=bool(case.get("_omit_default_flags")), decoy_file_costs=bool(case.get("_decoy_file_costs")))
    evals = 2
    expect_fail = None
    if algo in SUPER and not has_syn:
        expect_fail = "super-reconciliation algorithm without syntenies"
    elif algo in ("base_spfs", "ext_spfs") and not root_orders(inst):
        expect_fail = "no root order compatible with the leaves"
    for policy, (status, lines, printed, err, raw) in results.items():
        if isinstance(status, str):
            raise Violation(f"cli.{algo}.exception", observed=err[-400:], expected="no exception")
        if expect_fail:
            if status != 1 or raw.strip():
                raise Violation("cli.expected-status-1-and-no-output", observed={"status": status, "output": raw[:200]}, expected=expect_fail)
            continue
        if status != 0 or not lines:
            raise Violation(f"cli.{algo}.status", observed={"status": status, "lines": len(lines), "stderr": err[-300:]},
                            expected="status 0 and >=1 line")
        if printed is None:
            raise Violation("cli.minimum-cost-not-printed", observed=err[-300:], expected="'Minimum cost: <value>' on stderr")
    if expect_fail:
        labels.append("expected_failure")
        return Result(False, labels, evals=evals)
    seen = {}
    for policy, (status, lines, printed, err, raw) in results.items():
        canon = set()
        for line in lines:
            try:
                data = json.loads(line)
            except ValueError:
                raise Violation("cli.line-not-json", observed=line[:200], expected="one JSON object per line")
            if not isinstance(data, dict) or "input" not in data or "object_species" not in data:
                raise Violation("cli.line-not-a-solution-object", observed=line[:200], expected="solution object")
            for key in ("object_tree", "species_tree"):
                got = parse_newick(data["input"][key])
                names = list(got.name)
                if len(set(names)) != len(names) or any(n in ("", "NoName") for n in names):
                    raise Violation(f"cli.names-not-distinct-nonempty.{key}", observed=names, expected="distinct non-empty names")
                want = expected[key]
                if not want.is_binary():
                    # written on a binary refinement: every clade and every (given or generated) name of the labelled
                    # input is kept, the added nodes get distinct non-empty names
                    check_refinement(want, got, f"cli.refinement.{key}")
                elif _no_features(got) != _no_features(want):
                    raise Violation(f"cli.naming-rule.{key}", observed=data["input"][key], expected=want.to_newick())
            ocase = dict(data["input"])
            # the solutions are priced with the cost options the tool was given (defaults for omitted ones)
            written = {k: (INF if v == INF else v) for k, v in ocase.get("costs", {}).items()}
            if written != {k: v for k, v in base["costs"].items()}:
                raise Violation("cli.costs-of-written-solution!=cost-options", observed=written, expected=base["costs"])
            # every object leaf sits in the species the input gives it (explicitly, or through the documented
            # <species>_<id> naming rule when the assignment is left out)
            if ocase.get("leaf_object_species") != inst.los:
                raise Violation("cli.leaf-assignment-of-written-solution!=input", observed=ocase.get("leaf_object_species"), expected=inst.los)
            try:
                oinst = Instance(ocase, label=False)
            except (KeyError, ValueError, IndexError) as exc:
                # the written input is not a complete input in the documented format (e.g. a leaf without species)
                raise Violation("cli.written-input-incomplete", observed=repr(exc)[:200], expected="complete input in every written solution",
                                extra={"input": str(ocase)[:400]})
            m = data["object_species"]
            why = oinst.mapping_valid(m)
            if why:
                raise Violation("cli.invalid-solution", observed=m, expected=why)
            mode = pkg.ALGOS[algo][1] and ("ordered" if pkg.ALGOS[algo][2] else "unordered")
            lab = data.get("syntenies") if mode else None
            _rc, _lc, tot = total_cost(oinst, m, lab, ordered=(mode == "ordered"))
            if mode and bool(data.get("ordered")) != (mode == "ordered"):
                raise Violation("cli.ordered-flag", observed=data.get("ordered"), expected=mode)
            from superrec2.model.reconciliation import ReconciliationOutput, SuperReconciliationOutput

            cls = SuperReconciliationOutput if "syntenies" in data else ReconciliationOutput
            parsed = pkg.guarded(cls.from_dict, json.loads(line))
            pc = pkg.pkg_cost(parsed)
            if not (tot == pc == printed):
                raise Violation("cli.cost", observed={"recount": tot, "parsed_back": pc, "printed": printed}, expected="all equal")
            canon.add(_canon_line(data))
            evals += 1
        seen[policy] = (canon, lines)
    if len(seen["any"][1]) != 1:
        raise Violation("cli.any-count", observed=len(seen["any"][1]), expected=1)
    if not seen["any"][0] <= seen["all"][0]:
        raise Violation("cli.all-not-superset-of-any", observed=sorted(map(str, seen["any"][0]))[:1], expected="member of --solutions all")
    if results["any"][2] != results["all"][2]:
        raise Violation("cli.minimum-cost-differs-between-policies", observed=results["all"][2], expected=results["any"][2])
    # draw accepts every such object (first three lines of `all`, the `any` line)
    for i, line in enumerate([seen["any"][1][0]] + seen["all"][1][:3]):
        orientation = case["_orientation"] if i % 2 == 0 else ("vertical" if case["_orientation"] == "horizontal" else "horizontal")
        status, code, err = _draw_line(line, orientation)
        evals += 1
        if status != 0:
            raise Violation("cli.draw-rejects-solution", observed={"status": status, "stderr": err[-400:]}, expected="status 0", extra={"line": line[:400]})
        try:
            Picture(code)
        except TikzError as exc:
            raise Violation("cli.draw." + exc.clause, observed=str(exc.detail)[:300], expected="well-formed TikZ")
    nontrivial = (unnamed > 0 or like) and len(inst.oleaves) >= 3
    return Result(nontrivial, labels, evals=evals)


def _no_features(tree):
    def rec(n):
        return (tree.name[n], tuple(rec(c) for c in tree.children[n]))
    return rec(0)


def extra(tier, seed, stats, deadline):
    """Confirm the in-process runner against real subprocesses on a sample."""
    import hypothesis
    from hypothesis import HealthCheck, Phase, given, settings

    n = 8 if tier == "quick" else 60
    cases = []

    @hypothesis.seed(seed * 104729 + 3)
    @settings(max_examples=n, database=None, deadline=None, suppress_health_check=list(HealthCheck), phases=[Phase.generate])
    @given(_case())
    def grab(case):
        cases.append(case)

    grab()
    fails = []
    env = dict(os.environ)
    for case in cases:
        base = {k: v for k, v in case.items() if not k.startswith("_")}
        algo = case["_algo"]
        st_in, lines_in, printed_in, _err, raw_in = stubs.cli_reconcile(base, algo, "all")
        with stubs.TempDir() as tmp:
            inp, outp = os.path.join(tmp, "in.json"), os.path.join(tmp, "out.json")
            with open(inp, "w") as fh:
                json.dump({k: v for k, v in base.items() if k != "costs"}, fh)
            argv = [sys.executable, "-m", "superrec2.cli", "reconcile", "--input", inp, "--output", outp, "--solutions", "all"]
            argv += stubs.cost_args(base["costs"]) + [algo]
            proc = subprocess.run(argv, env=env, cwd=ROOT, capture_output=True, text=True, timeout=600)
            raw_sub = open(outp).read() if os.path.exists(outp) else ""
        stats.evaluations += 1
        stats.classes["subprocess_runs"] += 1
        sub_lines = sorted(l for l in raw_sub.splitlines() if l.strip())
        if proc.returncode != (st_in if isinstance(st_in, int) else 1) or sub_lines != sorted(lines_in):
            if isinstance(st_in, str):
                continue  # an in-process exception is reported by check() itself
            fails.append({"case": case, "clause": "cli.subprocess-differs-from-in-process",
                          "observed": {"status": proc.returncode, "lines": len(sub_lines), "stderr": proc.stderr[-300:]},
                          "expected": {"status": st_in, "lines": len(lines_in)}, "extra": {}})
    return fails
