"""C05 - ALL returns exactly the optimal solutions, ANY returns one of them."""
from collections import Counter

from hypothesis import strategies as st

from .. import gen, pkg
from ..plain import Instance
from ..runner import Result, Skip, Violation, case_hash
from ..solver_common import (MODE, maybe_alt_families, common_labels, leaf_move, prescribed_root_of, reference, set_costs_inplace,
                             set_leaf_species_inplace, solution_features, validate_output)

ID = "C05"
LEVEL = "exploration"
LEVEL_TEXT = (
    "Bounded-exhaustive (all inputs <=4x3 / <=3x3 leaves with <=2 families, rotating cost grid) plus random search against the COMPLETE optimal set produced by independent enumeration: for thl, exh, base/ext_spfs, base_uspfs and "
    "superdtl the ALL result must equal that set as a multiset (nothing missing, nothing extra, no repeats), ANY must return one member, "
    "all costs equal, empty only without a solution; bounds <=5-6 object leaves, <=4 species leaves, <=4 families, costs <=3."
)
LEVEL_NOTE = (
    "Trusted: harness/plain.py, harness/oracles.py (set-level cross-check recursion vs enumeration per case), Hypothesis. Coherent costs only. "
    "Unordered solvers are compared with the canonical-labelling optimal set, as the property states, and only on cases where the canonical "
    "optimum equals the all-labellings optimum (otherwise the case belongs to C03)."
)
TECHNIQUE = "property-based testing: bounded-exhaustive + Hypothesis random inputs, ALL/ANY results vs complete optimal set of a brute-force oracle"
DESIGN_REF = "DESIGN.md section 5 (C05)"
RULE = (
    "Bounded-exhaustive layer (see exhaustive_layer) + Hypothesis cases as in C01-C03 (group plain: <=5 object/<=5 species leaves; ordered: <=5/<=4, <=4 families, consistent or not, optional "
    "prescribed root; plain inputs have unnamed ancestral nodes in half of the cases (solutions then read by clades); unordered: <=6/<=4, <=4 families; one more leaf on each side in the thorough tier), coherent costs.  Checked per algorithm of the group: canonical(ALL) has no repeats and "
    "equals the oracle's complete optimal set, again after the unit costs of the same input object were changed in place and after one of its leaves was moved to another species in place; ANY returns exactly one solution, member of that set; every returned solution valid with cost == "
    "optimum; empty iff the oracle has no solution.  Non-trivial: the optimal set has >=2 members (ties) and the object tree >=3 leaves; "
    "distinct by SHA-1 of the case."
    '  Also: deep chains (6..7 leaves) with complete sets from the recursion oracle, 5-family inputs with 30..120 root orders, misleading leaf names, huge unit costs; one random case in eight is also run through `superrec2 reconcile --solutions all|any` (default-valued options omitted, decoy costs in the file): the written set must be the oracle set / one member of it and the printed minimum the optimum.'
)
ASSUMPTIONS = [
    "costs inside the coherent region",
    "solutions are compared by node names (inputs carry unique names)",
    "unordered: canonical labellings only (required content, or parent's content plus own gains), as stated by the property",
]
BUDGET = {"quick": {"random": 4000}, "thorough": {"random": 60000}}

EXHAUSTIVE_RULE = {
    "quick": "plain: every plane binary shape object<=4 x species<=3 leaves x leaf assignment with 2 of the 69 cost vectors of {0,1,2}^3 x hgt {0,1,inf} inside "
             "the region; ordered / unordered: object<=3 x species<=3 leaves x every leaf synteny assignment over <=2 families with 2 of the 141 vectors "
             "of {0,1,2}^4 x hgt {0,1,inf} (rotating residues, offset from those of C02/C03)",
    "thorough": "the same inputs with 12 / 24 / 24 cost vectors each",
}
EXHAUSTIVE_COMPLETE = False  # the random layer is not exhaustive

GROUPS = {
    "plain": ("thl", "exh"),
    "ordered": ("ext_spfs", "base_spfs"),
    "unordered": ("superdtl", "base_uspfs"),
}


@st.composite
def _case(draw, big=False):
    group = draw(st.sampled_from(["plain", "ordered", "unordered", "plain", "unordered"]))
    extra = 1 if big else 0
    if group == "plain":
        case = draw(gen.rec_case(max_obj=5 + extra, max_sp=5 + extra, costs="coherent", labelled=False, misleading=True))
    elif group in ("ordered", "unordered") and gen.chance(draw, 1, 5):
        # deep chains (caterpillar of 6..7 leaves over <=2 species, <=3 families, independent leaf contents), complete
        # optimal sets from the recursion oracle; both loss costs positive so that the sets stay small
        case = draw(gen.deep_chain_case(min_obj=6, max_obj=7, max_sp=2, max_fam=3))
        c = dict(case["costs"])
        c["SEGMENTAL_LOSS"] = max(1, c["SEGMENTAL_LOSS"])
        c["FULL_LOSS"] = max(1, c["FULL_LOSS"])
        while c["SPECIATION"] + 2 * c["SEGMENTAL_LOSS"] > c["DUPLICATION"] + 2 * c["FULL_LOSS"]:
            c["FULL_LOSS"] += 1
        case["costs"] = c
        case["_chain"] = True
    elif group == "ordered" and gen.chance(draw, 1, 6):
        # five families under few precedence constraints: dozens of root orders to explore
        case = draw(gen.many_orders_case())
    elif group == "ordered":
        case = draw(gen.rec_case(max_obj=5 + extra, max_sp=4 + extra, costs="coherent", labelled=True, max_fam=4, prescribed_root=True))
    else:
        case = draw(gen.rec_case(max_obj=6 + extra, max_sp=4 + extra, costs="coherent", labelled=True, max_fam=4, allow_inconsistent=False, misleading=True))
    case["_group"] = group
    case["_unnamed"] = group == "plain" and draw(st.booleans())
    return case


def strategy(tier):
    return _case(big=(tier == "thorough"))


def exhaustive(tier):
    mod = 32 if tier == "quick" else 64
    rep = 1 if tier == "quick" else 12
    return [(g, i, mod, rep) for g in ("plain", "ordered", "unordered") for i in range(mod)]


def run_job(job):
    group, idx, mod, rep = job
    labelled = group != "plain"
    grid = list(gen.cost_grid((0, 1, 2), (0, 1, gen.INF), labelled=labelled))
    if group == "plain":
        inputs = gen.all_inputs(4, 3)
        per = 2 if rep == 1 else 12
    else:
        inputs = gen.all_labelled_inputs(3, 3, 2, ordered=(group == "ordered"))
        per = 2 if rep == 1 else 24
    for k, base in enumerate(inputs):
        if k % mod != idx:
            continue
        for t in range(per):
            case = dict(base)
            case["costs"] = grid[(k * 11 + 3 + t * (len(grid) // per)) % len(grid)]
            case["_group"] = group
            case["_history"] = (k + t) % 4 == 0
            yield case


def _second_costs(c, labelled):
    """another cost vector inside the region, derived from the first (no random choice)."""
    hgt = c["HORIZONTAL_TRANSFER"]
    c2 = dict(c)
    c2["HORIZONTAL_TRANSFER"] = 1 if hgt == gen.INF else (gen.INF if hgt in (0, 1) else hgt - 1)
    c2["DUPLICATION"] = c["DUPLICATION"] + 1
    c2["FULL_LOSS"] = (c["FULL_LOSS"] + 1) % 3
    c2["SEGMENTAL_LOSS"] = (c["SEGMENTAL_LOSS"] + 1) % 2 if labelled else c["SEGMENTAL_LOSS"]
    budget = c2["DUPLICATION"] + 2 * c2["FULL_LOSS"] - (2 * c2["SEGMENTAL_LOSS"] if labelled else 0)
    if budget < 0:
        c2["SEGMENTAL_LOSS"] = 0
        budget = c2["DUPLICATION"] + 2 * c2["FULL_LOSS"]
    c2["SPECIATION"] = min(c["SPECIATION"], budget)
    return c2


def check(case):
    group = case["_group"]
    case = maybe_alt_families(case)
    inst = Instance(case)
    labels = common_labels(inst, labelled=group != "plain") + [f"group={group}"] + (["deep_chain"] if case.get("_chain") else [])
    proot = prescribed_root_of(inst) if group == "ordered" else None
    unnamed = bool(case.get("_unnamed"))
    if unnamed:
        # ancestors without names (library path): solutions are then read by clades
        labels.append("unnamed_ancestors")
        inp = pkg.make_input(pkg.strip_ancestor_names(case), labelled=False, label=False)
    else:
        inp = pkg.make_input(case, labelled=group != "plain")
    max_tie = 0
    any_set = None
    for algo in GROUPS[group]:
        mode, restrict = MODE[algo]
        canonical = mode == "unordered"
        opt, ref_set = reference(inst, mode, restrict_lca=restrict, canonical=canonical, labels=labels if not restrict else None)
        if canonical:
            opt_all, _ = reference(inst, mode, restrict_lca=restrict, canonical=False, want_set=False)
            if opt_all != opt:
                raise Skip("canonical_optimum!=all_labellings_optimum (reported by C03)")
        if ref_set is None:
            raise Skip("oracle_set_too_large")
        outs_all = pkg.run_algo(algo, inp, "ALL")
        outs_any = pkg.run_algo(algo, inp, "ANY")
        if opt is None:
            if outs_all or outs_any:
                raise Violation(f"{algo}.nonempty-without-solution", observed=len(outs_all), expected=0)
            continue
        got = Counter()
        for out in outs_all:
            if unnamed:
                m = pkg.mapping_names_by_clade(out, inst)
                why = inst.mapping_valid(m)
                if why is not None or inst.rec_cost(m) != opt or pkg.pkg_cost(out) != opt:
                    raise Violation(f"{algo}.ALL.unnamed.invalid-or-not-optimal", observed={"mapping": m, "why": why, "package_cost": pkg.pkg_cost(out)}, expected=opt)
                got[tuple(sorted(m.items()))] += 1
                continue
            _m, _lab, tot = validate_output(inst, out, algo, "ALL", proot)
            if tot != opt:
                raise Violation(f"{algo}.ALL.cost!=oracle_min", observed=tot, expected=opt)
            got[pkg.canon_output(out, labelled=mode != "plain", ordered=mode == "ordered")] += 1
        dups = [k for k, v in got.items() if v > 1]
        if dups:
            raise Violation(f"{algo}.ALL.duplicate", observed=dups[:1], expected="each optimal solution once")
        missing = [k for k in ref_set if k not in got]
        extra = [k for k in got if k not in ref_set]
        if missing:
            raise Violation(f"{algo}.ALL!=oracle_set.missing", observed=f"{len(got)} returned", expected=missing[:1],
                            extra={"n_expected": len(ref_set)})
        if extra:
            raise Violation(f"{algo}.ALL!=oracle_set.extra", observed=extra[:1], expected=f"{len(ref_set)} optimal solutions")
        if len(outs_any) != 1:
            raise Violation(f"{algo}.ANY.count", observed=len(outs_any), expected=1)
        if unnamed:
            one = tuple(sorted(pkg.mapping_names_by_clade(outs_any[0], inst).items()))
        else:
            validate_output(inst, outs_any[0], algo, "ANY", proot)
            one = pkg.canon_output(outs_any[0], labelled=mode != "plain", ordered=mode == "ordered")
        if one not in ref_set:
            raise Violation(f"{algo}.ANY.not_in_ALL", observed=one, expected="member of the optimal set")
        max_tie = max(max_tie, len(ref_set))
        if not restrict:
            any_set = ref_set
    # history on the same input object: unit costs changed in place, then one leaf moved to another species in
    # place; after each step ALL must be the complete optimal set of the input as it now is (one case in four of
    # the exhaustive layer, every random case)
    if not unnamed and case.get("_history", True):
        labelled = group != "plain"
        c2 = _second_costs(inst.c, labelled)
        steps = [("costs-changed-in-place", dict({k: v for k, v in case.items() if not k.startswith("_")}, costs=c2))]
        mv = leaf_move(case, inst)
        if mv is not None:
            steps.append(("leaf-moved-in-place", dict(mv[2], costs=c2)))
        for tag, case2 in steps:
            inst2 = Instance(case2)
            if tag.startswith("costs"):
                set_costs_inplace(inp, c2)
            else:
                set_leaf_species_inplace(inp, mv[0], mv[1])
            for algo in GROUPS[group]:
                mode, restrict = MODE[algo]
                opt2, ref2 = reference(inst2, mode, restrict_lca=restrict, canonical=(mode == "unordered"))
                if mode == "unordered" and reference(inst2, mode, restrict_lca=restrict, canonical=False, want_set=False)[0] != opt2:
                    continue
                if opt2 is not None and ref2 is None:
                    # the oracle declined to list the complete optimal set (too large): nothing to compare with
                    labels.append("history_set_too_large") if "history_set_too_large" not in labels else None
                    continue
                got2 = Counter(pkg.canon_output(o, labelled=mode != "plain", ordered=mode == "ordered") for o in pkg.run_algo(algo, inp, "ALL"))
                exp2 = Counter(ref2 or ())
                if got2 != exp2:
                    raise Violation(f"{algo}.ALL.after-{tag}", observed=f"{sum(got2.values())} returned, {len(set(got2) - set(exp2))} not optimal, {len(set(exp2) - set(got2))} missing",
                                    expected=f"the {len(exp2)} optimal solutions of cost {opt2}", extra={"second_costs": c2, "moved": mv[:2] if mv and not tag.startswith("costs") else None})
        labels.append("history")
    # the command-line observation point: `superrec2 reconcile --solutions all|any` writes that same set / one member of
    # it and prints the optimum (one random case in eight; options omitted when they have their default value)
    if not unnamed and "_history" not in case and int(case_hash(case), 16) % 8 == 0:
        import json

        from .. import stubs

        algo = GROUPS[group][0]
        mode, restrict = MODE[algo]
        opt_c, ref_c = reference(inst, mode, restrict_lca=restrict, canonical=(mode == "unordered"))
        if opt_c is not None and ref_c is None:
            raise Skip("oracle_set_too_large")
        data = {k: v for k, v in case.items() if not k.startswith("_")}
        if group == "plain":
            data.pop("leaf_syntenies", None)
        for policy in ("all", "any"):
            status, lines, printed, err, _raw = stubs.cli_reconcile(data, algo, policy, omit_default_flags=True, decoy_file_costs=True)
            if opt_c is None:
                if status != 1 or lines:
                    raise Violation(f"cli.{algo}.{policy}.expected-status-1-and-no-output", observed={"status": status, "lines": len(lines)}, expected="no solution")
                continue
            if status != 0 or printed != opt_c:
                raise Violation(f"cli.{algo}.{policy}.status-or-minimum-cost", observed={"status": status, "printed": printed, "stderr": err[-200:]}, expected=opt_c)
            got_c = Counter()
            for line in lines:
                d = json.loads(line)
                ms = tuple(sorted(d["object_species"].items()))
                if mode == "plain":
                    got_c[ms] += 1
                else:
                    ls = tuple(sorted((k, tuple(v) if mode == "ordered" else tuple(sorted(v))) for k, v in d["syntenies"].items()))
                    got_c[(ms, ls)] += 1
            if policy == "all" and (set(got_c) != set(ref_c or ()) or any(v > 1 for v in got_c.values())):
                raise Violation(f"cli.{algo}.all!=oracle_set", observed=f"{sum(got_c.values())} lines", expected=f"{len(ref_c or ())} optimal solutions")
            if policy == "any" and (sum(got_c.values()) != 1 or not set(got_c) <= set(ref_c or ())):
                raise Violation(f"cli.{algo}.any-not-one-optimal-solution", observed=f"{sum(got_c.values())} lines", expected="one member of the optimal set")
        labels.append("cli")
    feats, _ = solution_features(inst, any_set, MODE[GROUPS[group][0]][0])
    labels += feats
    labels.append("tie=1" if max_tie <= 1 else "tie=2-4" if max_tie <= 4 else "tie=5-20" if max_tie <= 20 else "tie>20")
    nontrivial = max_tie >= 2 and len(inst.oleaves) >= 3
    return Result(nontrivial, labels, evals=4)
