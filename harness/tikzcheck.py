"""Line-level parser for the TikZ code produced by superrec2.render.tikz
(every statement of the picture is emitted on one line)."""
from __future__ import annotations

import re

NUM = r"-?\d+(?:\.\d+)?(?:e-?\d+)?"
COORD = re.compile(rf"\(({NUM}),({NUM})\)")


class TikzError(Exception):
    def __init__(self, clause, detail=""):
        super().__init__(clause)
        self.clause = clause
        self.detail = detail


def brace_balance(text):
    """Depth profile of unescaped braces; returns final depth, raises on a negative depth.
    `\\\\` is a line break (two characters) and does not escape what follows."""
    depth = 0
    i = 0
    while i < len(text):
        ch = text[i]
        if ch == "\\":
            i += 2  # skip the escaped character (\{, \}, \\, \_ ...)
            continue
        if ch == "{":
            depth += 1
        elif ch == "}":
            depth -= 1
            if depth < 0:
                raise TikzError("tikz.unbalanced-braces", f"negative depth at offset {i}")
        i += 1
    return depth


# option keys of TikZ itself that may open an option list with an argument
TIKZ_KEYS = {"draw", "fill", "line width", "color", "anchor", "font", "align", "rotate", "xshift", "yshift", "shift", "opacity", "text",
             "inner sep", "outer sep", "minimum width", "minimum height", "rounded corners", "shape", "at", "name", "label", "pos"}


class Picture:
    def __init__(self, code):
        self.code = code
        lines = code.split("\n")
        begins = [i for i, l in enumerate(lines) if l.strip() == r"\begin{tikzpicture}"]
        ends = [i for i, l in enumerate(lines) if l.strip() == r"\end{tikzpicture}"]
        if len(begins) != 1 or len(ends) != 1 or begins[0] > ends[0]:
            raise TikzError("tikz.picture-environment", f"{len(begins)} begin / {len(ends)} end")
        if code.count(r"\begin{tikzpicture}") != 1 or code.count(r"\end{tikzpicture}") != 1:
            raise TikzError("tikz.picture-environment", "environment markers inside other text")
        self.preamble = lines[: begins[0]]
        self.body = lines[begins[0] + 1 : ends[0]]
        self.tail = lines[ends[0] + 1 :]
        if any(l.strip() for l in self.tail):
            raise TikzError("tikz.text-after-picture", repr(self.tail[:2]))
        if brace_balance(code) != 0:
            raise TikzError("tikz.unbalanced-braces", "non-zero final depth")
        self.statements = []
        for line in self.body:
            if not line.strip() or line.lstrip().startswith("%"):
                continue
            if brace_balance(line) != 0:
                raise TikzError("tikz.statement-spans-lines-or-unbalanced", line[:200])
            if not line.rstrip().endswith(";"):
                raise TikzError("tikz.statement-not-terminated", line[:200])
            if not line.lstrip().startswith((r"\path", r"\node")):
                raise TikzError("tikz.unknown-statement", line[:200])
            self.statements.append(line)
        # colours
        self.colors = {}
        for line in self.preamble:
            m = re.fullmatch(r"\\definecolor\{(reccolor\d+)\}\{HTML\}\{([^}]*)\}", line.strip())
            if m:
                if m.group(1) in self.colors:
                    raise TikzError("tikz.colour-defined-twice", m.group(1))
                self.colors[m.group(1)] = m.group(2)
        used = set(re.findall(r"reccolor\d+", "\n".join(self.body)))
        missing = used - set(self.colors)
        if missing:
            raise TikzError("tikz.colour-used-but-not-defined", sorted(missing))
        if re.search(r"\\definecolor", "\n".join(self.body)):
            raise TikzError("tikz.colour-defined-inside-picture")
        # styles: every custom style a statement starts with (the first key of its option list, when it has an
        # argument: `\node[loss={...}]`, `\path[transfer branch={...}]`) is defined by a `<name>/.style` of the preamble
        self.styles = set(re.findall(r"^\s*([A-Za-z][A-Za-z ]*)/\.style", "\n".join(self.preamble), flags=re.M))
        for st in self.statements:
            m = re.match(r"\\(?:node|path)\[([A-Za-z][A-Za-z ]*)=", st)
            if m and m.group(1) not in self.styles and m.group(1) not in TIKZ_KEYS:
                raise TikzError("tikz.style-used-but-not-defined", m.group(1))

    # ----- statement kinds -------------------------------------------------
    def nodes(self, style):
        """[(colour name, (x, y), label text, raw)] for `\\node[<style>={colour}...] at (x,y) {label};`"""
        out = []
        prefix = rf"\node[{style}="
        for st in self.statements:
            if not st.startswith(prefix):
                continue
            m = re.match(r"\\node\[" + re.escape(style) + r"=\{(reccolor\d+)\}", st)
            if not m:
                raise TikzError("tikz.node-without-colour", st[:200])
            at = re.search(r"\] at \((" + NUM + r"),(" + NUM + r")\) \{", st)
            if not at:
                raise TikzError("tikz.node-without-position", st[:200])
            label = st[at.end() : st.rstrip().rfind("}")]
            extra = None
            if style == "extant gene":
                # \node[extant gene={colour}{label}] at (x,y) {};
                head = st[: at.start()]
                start = head.index("}{") + 2
                extra = head[start : head.rindex("}")]
            out.append({"color": m.group(1), "pos": (float(at.group(1)), float(at.group(2))), "label": label, "name": extra, "raw": st})
        return out

    def transfer_arrows(self):
        out = []
        for st in self.statements:
            if st.startswith(r"\path[transfer branch="):
                m = re.match(r"\\path\[transfer branch=\{(reccolor\d+)\}\] \((" + NUM + "),(" + NUM + r")\) to\[[^\]]*\] \((" + NUM + "),(" + NUM + r")\);", st)
                if not m:
                    raise TikzError("tikz.transfer-arrow-syntax", st[:200])
                out.append({"color": m.group(1), "start": (float(m.group(2)), float(m.group(3))), "end": (float(m.group(4)), float(m.group(5))), "raw": st})
        return out

    def species_labels(self):
        out = []
        for st in self.statements:
            m = re.search(r"node\[species label\] \{", st)
            if m:
                start = m.end()
                depth = 1
                i = start
                while i < len(st) and depth:
                    if st[i] == "\\":
                        i += 2
                        continue
                    if st[i] == "{":
                        depth += 1
                    elif st[i] == "}":
                        depth -= 1
                    i += 1
                out.append(st[start : i - 1])
        return out


def unescape(text):
    """inverse of tex.escape: `\\\\` -> `\\`, `\\_` -> `_`; a bare `_` is an error."""
    out = []
    i = 0
    while i < len(text):
        ch = text[i]
        if ch == "\\":
            if i + 1 >= len(text):
                raise TikzError("tikz.dangling-backslash", text)
            nxt = text[i + 1]
            if nxt == "\\":
                out.append("\\")
            elif nxt == "_":
                out.append("_")
            else:
                raise TikzError("tikz.unknown-escape", text)
            i += 2
            continue
        if ch == "_":
            raise TikzError("tikz.bare-underscore", text)
        out.append(ch)
        i += 1
    return "".join(out)
