"""C15 - generated TikZ is well-formed and labels are faithful."""
import itertools
import re

from hypothesis import strategies as st

from .. import render_common as rc
from ..plain import Instance, parse_newick
from ..runner import Result, Violation
from ..tikzcheck import Picture, TikzError, unescape

ID = "C15"
LEVEL = "exploration"
LEVEL_TEXT = (
    "Random search over valid reconciliations with hostile names (letters, digits, underscores, backslashes), random and nested colour annotations, "
    "syntenies up to 12 families and wrap widths 1-30: the generated code is parsed (balanced braces, one picture, terminated statements, colours "
    "defined once before the picture), every node/loss colour is compared with an independent 'nearest coloured ancestor' rule, labels are un-escaped "
    "and un-wrapped back to names and family lists; plus an exhaustive layer for the label wrapper over word-length tuples and widths."
)
LEVEL_NOTE = (
    "Trusted: the TikZ line parser and un-escaper of harness/tikzcheck.py, the colour rule and greedy reference wrapper of this module. Family names "
    "contain no backslash (an escaped backslash and a label line break are both written '\\\\\\\\'), no name contains spaces or hyphens. TeX is not run."
)
TECHNIQUE = "property-based testing: Hypothesis random reconciliations with hostile names/colours/widths + exhaustive wrapper inputs vs independent parsers and rules"
DESIGN_REF = "DESIGN.md section 6 (C15)"
RULE = (
    "Hypothesis cases: binary input <=7 object / <=5 species leaves, constructed valid mapping, node names over [A-Za-z0-9_\\\\] (object leaves "
    "<part>_<part>), family names over [A-Za-z0-9_], up to 12 families, a colour on about half of the object nodes (nesting frequent), label kind "
    "none/ordered/unordered, wrap widths None or 1..30, both orientations.  Checked: Picture parses (balanced braces, exactly one tikzpicture, every "
    "statement on one terminated line, every reccolor<i> used is defined once before the picture); Branch.color of every gene == nearest coloured "
    "ancestor-or-self else 000000, of every loss marker == colour of the gene whose incoming edge it sits on; the TikZ event/loss nodes carry those "
    "colours (matched to layout boxes by position); species and leaf labels un-escape to the names; each displayed synteny label un-wraps to the "
    "node's families in order; an ancestral label is empty only if the synteny equals the parent's; wrapped labels keep the words, respect the width "
    "unless a single word is longer, and use no more lines than greedy wrapping.  Exhaustive wrapper layer: all word-length tuples (<=5 words quick, "
    "<=6 thorough, lengths 1..5) x widths 1..14.  Non-trivial: a nested colour or a wrapped label or an escaped character occurs; distinct by SHA-1."
    '  Also: the wrapper layer includes 6-7 words with one over-long word at every position; sets for unordered syntenies (labels then compared as family sets); leaf names without underscore when leaves are labelled by their synteny; history as in C13.'
)
ASSUMPTIONS = ["family names without backslash; no spaces or hyphens in names", "colours are 6 hex digits"]
BUDGET = {"quick": {"random": 1200}, "thorough": {"random": 20000}}
EXHAUSTIVE_RULE = {"quick": "balanced_wrap: all word-length tuples with <=5 words of length 1..5 x widths 1..14; 6 words of which one has 6..10 characters (every position) and the others 1..4, widths 1..12",
                   "thorough": "balanced_wrap: <=6 words of length 1..5 x widths 1..14; 6..7 words with one long word as in the quick tier"}
EXHAUSTIVE_COMPLETE = False
EPS = 2e-3


def exhaustive(tier):
    top = 5 if tier == "quick" else 6
    return [(top, i, 16) for i in range(16)]


def run_job(job):
    top, idx, mod = job
    k = 0
    for n in range(0, top + 1):
        for lens in itertools.product(range(1, 6), repeat=n):
            k += 1
            if k % mod == idx:
                yield {"_kind": "wrap", "lens": list(lens)}
    # one word longer than most widths among short ones (the "unless a single word is longer" clause): 6..7 words,
    # the long one of 6..10 characters at every position, the others of 1..4 characters (1..3 with 7 words), widths 1..12
    for n in (6, 7) if top >= 6 else (6,):
        for pos in range(n):
            for long_len in range(6, 11):
                for shorts in itertools.product(range(1, 5 if n == 6 else 4), repeat=n - 1):
                    k += 1
                    if k % mod == idx:
                        lens = list(shorts[:pos]) + [long_len] + list(shorts[pos:])
                        yield {"_kind": "wrap", "lens": lens, "widths": list(range(1, 13))}


@st.composite
def _case(draw):
    if rc.gen.chance(draw, 1, 6):
        words = draw(st.lists(st.integers(1, 12), min_size=0, max_size=14))
        return {"_kind": "wrap", "lens": words, "comma": draw(st.booleans()), "widths": [draw(st.integers(1, 40)) for _ in range(3)]}
    case = draw(rc.render_case(max_obj=7, max_sp=5, max_fam=12, perturb_params=False, backslash_names=True, nested_colours=True, widths=True))
    case["_kind"] = "render"
    return case


def strategy(tier):
    return _case()


# --- wrapper ----------------------------------------------------------------
def greedy_lines(words, width):
    lines, cur = [], ""
    for w in words:
        if not cur:
            cur = w
        elif len(cur) + 1 + len(w) <= width:
            cur += " " + w
        else:
            lines.append(cur)
            cur = w
    if cur:
        lines.append(cur)
    return lines


def check_wrap_text(text, width, where):
    from superrec2.utils.text import balanced_wrap

    got = balanced_wrap(text, width)
    words = text.split()
    lines = got.split("\n") if got else []
    if [w for l in lines for w in l.split()] != words:
        raise Violation("wrap.words-changed", observed=got, expected=text, extra={"width": width, "where": where})
    for l in lines:
        if len(l) > width and len(l.split()) > 1:
            raise Violation("wrap.line-too-long", observed=l, expected=f"<= {width} characters", extra={"text": text})
        if l != " ".join(l.split()):
            raise Violation("wrap.whitespace", observed=repr(l), expected="single spaces, no padding")
    ref = greedy_lines(words, width)
    if len(lines) > len(ref):
        raise Violation("wrap.more-lines-than-greedy", observed=len(lines), expected=len(ref), extra={"text": text, "width": width})
    return len(lines)


def check_wrap(case):
    lens = case["lens"]
    letters = "abcdefghij"
    words = [letters[i % 10] * n for i, n in enumerate(lens)]
    if case.get("comma"):
        words = [w + "," for w in words[:-1]] + words[-1:]
    text = " ".join(words)
    widths = case.get("widths") or range(1, 15)
    multi = False
    for width in widths:
        if check_wrap_text(text, width, "wrapper layer") > 1:
            multi = True
    return Result(multi and len(words) >= 3, ["wrap"], evals=len(list(widths)))


# --- rendering ----------------------------------------------------------------
def expected_colours(tree):
    out = {}
    for n in tree.preorder():
        col = tree.features[n].get("color")
        if col is None and tree.parent[n] is not None:
            col = out[tree.name[tree.parent[n]]]
        out[tree.name[n]] = col if col is not None else "000000"
    return out


def nested_colour(tree):
    for n in tree.nodes():
        if "color" in tree.features[n]:
            p = tree.parent[n]
            while p is not None:
                if "color" in tree.features[p]:
                    return True
                p = tree.parent[p]
    return False


def _match(nodes, boxes):
    """bipartite matching nodes -> boxes (node position inside box and same colour)."""
    adj = []
    for nd in nodes:
        adj.append([j for j, (rect, col) in enumerate(boxes)
                    if col == nd["html"] and rect.x - EPS <= nd["pos"][0] <= rect.x + rect.w + EPS
                    and rect.y - EPS <= nd["pos"][1] <= rect.y + rect.h + EPS])
    owner = {}

    def try_assign(i, seen):
        for j in adj[i]:
            if j in seen:
                continue
            seen.add(j)
            if j not in owner or try_assign(owner[j], seen):
                owner[j] = i
                return True
        return False

    for i in range(len(nodes)):
        if not try_assign(i, set()):
            return i
    return None


def parse_synteny_label(label, width):
    """label text -> list of family names; checks the wrap on the way."""
    if label == "":
        return []
    lines = label.split("\\\\")
    text = " ".join(lines)
    if width is not None:
        for l in lines:
            if len(l) > width and len(l.split()) > 1:
                raise Violation("label.line-too-long", observed=l, expected=f"<= {width}")
        ref = greedy_lines(text.split(), width)
        if len(lines) > len(ref):
            raise Violation("label.more-lines-than-greedy", observed=len(lines), expected=len(ref), extra={"label": label})
    elif len(lines) > 1:
        raise Violation("label.wrapped-without-width", observed=label, expected="single line")
    try:
        return [unescape(part) for part in text.split(", ")]
    except TikzError as exc:
        raise Violation("label." + exc.clause, observed=label, expected="escaped family names")


def split_leaf_label(label):
    """`<species>\\textsubscript{<gene>}` -> candidate (species, gene) pairs (un-escaped)."""
    out = []
    for m in re.finditer(re.escape("\\textsubscript{"), label):
        head, tail = label[: m.start()], label[m.end():]
        if not tail.endswith("}"):
            continue
        try:
            out.append((unescape(head), unescape(tail[:-1])))
        except TikzError:
            continue
    return out


def check_render(case):
    base = {k: v for k, v in case.items() if not k.startswith("_")}
    inst = Instance(base, label=False)
    otree = parse_newick(base["object_tree"])
    exp_col = expected_colours(otree)
    kind = case["_label_kind"]
    lab = None if kind == "none" else (case["_lab_o"] if kind == "ordered" else case["_lab_u"])
    width = case["_params"].get("event_label_width")
    labels = [f"labels={kind}"]
    wrapped = escaped = False
    for orientation in ("VERTICAL", "HORIZONTAL"):
        out, lay, code, params, _stub = rc.compute(case, orientation)
        nm = _stub.names
        tag = orientation.lower()
        try:
            pic = Picture(code)
            tikz_nodes = {k: pic.nodes(s) for k, s in (("LEAF", "extant gene"), ("S", "speciation"), ("D", "duplication"),
                                                         ("T", "horizontal gene transfer"), ("LOSS", "loss"))}
            species_labels = pic.species_labels()
        except TikzError as exc:
            raise Violation(f"tikz.{tag}.{exc.clause}", observed=str(exc.detail)[:300], expected="well-formed TikZ")
        for html in pic.colors.values():
            if not re.fullmatch(r"[0-9A-Fa-f]{6}", html):
                raise Violation(f"tikz.{tag}.colour-value", observed=html, expected="6 hex digits")
        # ---- colours on the layout -------------------------------------
        boxes = {"LEAF": [], "S": [], "D": [], "T": [], "LOSS": []}
        names = {"LEAF": [], "S": [], "D": [], "T": []}
        for species, sub in lay.items():
            for gene, br in sub.branches.items():
                k = rc.branch_kind(br)
                if rc.is_pseudo(gene):
                    below = gene
                    cur = br
                    owner = None
                    while owner is None:
                        child = cur.left if cur.left is not None else cur.right
                        if rc.is_pseudo(child):
                            cur = next(s.branches[child] for s in lay.values() if child in s.branches)
                        else:
                            owner = child
                    want = exp_col[nm[owner]]
                    if br.color != want:
                        raise Violation(f"colour.{tag}.loss-marker", observed=br.color, expected=want, extra={"edge_of": nm[owner]})
                    # the marker is drawn on the trunk edge, not in the branch box: widen the box to the trunk
                    t = sub.trunk
                    from superrec2.utils.geometry import Rect
                    c = br.rect.center()
                    box = Rect(t.x, c.y, t.w, 0) if orientation == "VERTICAL" else Rect(c.x, t.y, 0, t.h)
                    boxes["LOSS"].append((box, want))
                    continue
                want = exp_col[nm[gene]]
                if br.color != want:
                    raise Violation(f"colour.{tag}.gene-branch", observed=br.color, expected=want, extra={"node": nm[gene]})
                boxes[k].append((br.rect, want))
                names[k].append((nm[gene], br.name))
        for k, nds in tikz_nodes.items():
            for nd in nds:
                nd["html"] = pic.colors[nd["color"]]
            bad = _match(nds, boxes[k])
            if bad is not None or len(nds) != len(boxes[k]):
                raise Violation(f"colour.{tag}.tikz-node", observed=(nds[bad]["raw"][:160] if bad is not None else len(nds)),
                                expected="a layout box of the same kind and colour at that position")
        # ---- labels ---------------------------------------------------------
        leaf_species = [s for s in inst.snodes if not inst.schildren[s]]
        try:
            got_species = sorted(unescape(l) for l in species_labels)
        except TikzError as exc:
            raise Violation(f"label.{tag}.species.{exc.clause}", observed=species_labels, expected=leaf_species)
        if got_species != sorted(leaf_species):
            raise Violation(f"label.{tag}.species", observed=got_species, expected=sorted(leaf_species))
        if any("\\" in s or "_" in s for s in leaf_species):
            escaped = True
        # tikz prints the branch names verbatim
        for k, style_nodes in tikz_nodes.items():
            if k == "LOSS":
                continue
            got_labels = sorted((nd["name"] if k == "LEAF" else nd["label"]) for nd in style_nodes)
            want_labels = sorted((nm if (nm or k != "T") else r"\phantom{-}") for _g, nm in names[k])
            if got_labels != want_labels:
                raise Violation(f"label.{tag}.tikz-differs-from-layout", observed=got_labels[:3], expected=want_labels[:3])
        for k in ("LEAF", "S", "D", "T"):
            for gname, text in names[k]:
                if lab is None:
                    if k != "LEAF":
                        if text != "":
                            raise Violation(f"label.{tag}.unexpected-ancestral-label", observed=text, expected="")
                        continue
                    sp, gn = gname.rsplit("_", 1)
                    if (sp, gn) not in split_leaf_label(text):
                        raise Violation(f"label.{tag}.leaf-name", observed=text, expected=(sp, gn))
                    if "\\" in gname or "_" in sp:
                        escaped = True
                    continue
                fams = list(lab[gname])
                if text == "":
                    if not fams:
                        continue  # an empty family set (possible for unordered ancestors) is displayed as an empty label
                    parent = inst.oparent[gname]
                    if k == "LEAF" or parent is None or list(lab[parent]) != fams:
                        raise Violation(f"label.{tag}.omitted-although-different-from-parent", observed="", expected=fams, extra={"node": gname})
                    continue
                got = parse_synteny_label(text, width)
                if kind == "unordered" and case.get("_syn_sets"):
                    # a synteny handed over as a set has no order: the label lists exactly its families, in any order
                    got, fams = sorted(got), sorted(fams)
                if got != fams:
                    raise Violation(f"label.{tag}.synteny", observed=got, expected=fams, extra={"node": gname, "label": text})
                if "\\\\" in text:
                    wrapped = True
                if any("_" in f for f in fams):
                    escaped = True
    nested = nested_colour(otree)
    if nested:
        labels.append("nested_colour")
    if wrapped:
        labels.append("wrapped_label")
    if escaped:
        labels.append("escaped_char")
    return Result(nested or wrapped or escaped, labels, evals=2)


def check(case):
    if case["_kind"] == "wrap":
        return check_wrap(case)
    return check_render(case)
